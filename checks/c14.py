"""C14 - scalar parsers and validators classify every input exactly."""
import os
import sys
sys.path.insert(0, os.path.dirname(os.path.dirname(os.path.abspath(__file__))))
from checks import common, strs           # noqa: E402
from symx import run as R                 # noqa: E402


def mk(name, f, goals=()):
    hh = R.Harness(name, f, strs.load_sym, strs.load_real)
    hh.required_goals = goals
    return hh


H = {
    'bool': mk('bool', strs.scen_bool, ('true', 'false', 'rejected')),
    'bool-nonstr': mk('bool-nonstr', strs.scen_bool_nonstr, ('done',)),
    'intlike': mk('intlike', strs.scen_intlike, ('yes', 'no')),
    'validate-int': mk('validate-int', strs.scen_validate_int,
                       ('accepted', 'rejected')),
    'strlen': mk('strlen', strs.scen_strlen, ('ok', 'ValueError')),
}
H['uuid-like'] = R.Harness('uuid-like', strs.scen_uuid_like,
                           strs.load_sym_uuid, strs.load_real_uuid)
H['uuid-like'].required_goals = ('accepted', 'rejected')
H['generate-uuid'] = R.Harness('generate-uuid', strs.scen_generate_uuid,
                               strs.load_sym_uuid, strs.load_real_uuid)
H['generate-uuid'].required_goals = ('done',)
BOOLDOM = sorted(set(b'tTrRuUeEfFaAlLsSoOnNyY01 \t\nxX\xa0_') |
                 {0x17F, 0x212A, 0x2003})   # long s, Kelvin sign, em space


def build_jobs(tier, seed):
    J = common.Job
    q = tier == 'quick'
    jobs = [
        J(H['bool'], dict(n=4 if q else 6, domain=BOOLDOM), split_depth=10),
        J(H['bool'], dict(n=2 if q else 3), split_depth=8),
        J(H['bool-nonstr'], {}),
        J(H['intlike'], dict(n=3 if q else 5), split_depth=8),
        J(H['validate-int'], dict(kind='int')),
        J(H['validate-int'], dict(kind='int', lo=False)),
        J(H['validate-int'], dict(kind='int', hi=False)),
        J(H['validate-int'], dict(kind='str', n=3 if q else 4),
          split_depth=8),
        J(H['strlen'], dict(n=4 if q else 6)),
        J(H['generate-uuid'], {}),
    ]
    # is_uuid_like: symbolic characters at the interesting positions
    # (first, second - "0x" -, middle, last) of a 30..34 character body
    posets = [[0, 1], [0, -1], [15, 16]] if q else \
        [[0, 1], [0, -1], [1, -1], [15, 16], [7, 8], [0, 1, -1]]
    for deco in ('plain', 'hyphenated', 'braced', 'urn'):
        for ps in posets:
            jobs.append(J(H['uuid-like'], dict(decoration=deco,
                                               positions=ps),
                          split_depth=6))
        jobs.append(J(H['uuid-like'], dict(decoration=deco, positions=[0],
                                           lengths=[30, 31, 33, 34])))
    return jobs


def describe(tier):
    q = tier == 'quick'
    return {
        'bool_from_string / is_valid_boolstr / int_from_bool_as_string':
        'subject: every string of up to %d characters over the letters of '
        'the documented words in both cases, digits 0/1, whitespace '
        '(space, tab, newline, NBSP) and foreign characters; and every '
        'string of up to %d characters over 0x00-0xFF; strict and default '
        'symbolic; unbounded ints and bools' % (4 if q else 6, 2 if q else 3),
        'is_int_like': 'every string of up to %d characters over digits, '
        'signs, underscore, whitespace, dot and letters; every int' % (
            3 if q else 5),
        'validate_integer': 'unbounded symbolic int value and bounds '
        '(each bound also None); strings of up to %d characters' % (
            3 if q else 4),
        'check_string_length': 'lengths 0..%d, min 0..8, max None or 1..8; '
        'non-string arguments' % (4 if q else 6),
        'is_uuid_like': 'plain / hyphenated / braced / urn:uuid: spellings '
        'of a 32-character body with 2 (thorough: up to 3) symbolic '
        'characters over [09afAFgz_x+- {}:] at the first, second, middle and '
        'last positions, and bodies of 30, 31, 33, 34 characters; uuid.UUID '
        'is a contract model (CPython normalisation and int(x, 16) rules)',
        'generate_uuid': 'uuid4 from 16 symbolic random bytes: shape, '
        'version nibble, dashed/undashed agreement, is_uuid_like of both',
        'outside': 'longer strings; more than 3 arbitrary characters in a '
        'UUID body; '
        'max_length=0 (treated as no bound by the code, not covered by the '
        'statement)',
    }


ASSUME = ['character predicates (isspace, lower) are tables computed from '
          'the real str methods over 0x00-0xFF',
          'int(str) model follows CPython base-10 rules (whitespace, sign, '
          'single underscores); validated per path on the real int()']

if __name__ == '__main__':
    sys.exit(common.main('C14', build_jobs, H, ASSUME, describe))
