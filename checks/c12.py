"""C12 - time normalisation, overridden-clock comparison and marshalling."""
import os
import sys
sys.path.insert(0, os.path.dirname(os.path.dirname(os.path.abspath(__file__))))
from checks import common, times          # noqa: E402
from symx import run as R                 # noqa: E402


def mk(name, f, goals):
    hh = R.Harness(name, f, times.load_sym, times.load_real)
    hh.required_goals = goals
    return hh


H = {'normalize': mk('normalize', times.scen_normalize, ('aware', 'naive')),
     'compare': mk('compare', times.scen_compare, ('aware', 'naive')),
     'marshall': mk('marshall', times.scen_marshall, ('utc', 'naive'))}
H['fixture'] = R.Harness('fixture', times.scen_fixture, times.load_sym_fx,
                         times.load_real_fx)
H['fixture'].required_goals = ('done',)


def build_jobs(tier, seed):
    J = common.Job
    cmp_p = {'fracs': list(range(64))} if tier == 'thorough' else {}
    return [J(H['normalize'], {}), J(H['compare'], cmp_p),
            J(H['marshall'], {}), J(H['fixture'], {})]


def describe(tier):
    return {
        'instants': 'every microsecond instant of the representable range '
        '(two days away from either end so that results stay representable)',
        'offsets': 'every fixed offset strictly between -24 h and +24 h at '
        'microsecond resolution (so offsets with a seconds part are '
        'included)',
        'seconds / window': 'every integer number of seconds in +-3.2*10^11 '
        '(the exact-equality boundary and negative values included), and '
        'every such integer plus 1/64, 1/4, 1/2 or 63/64 s (thorough: every '
        'k/64, k = 1..63) passed as a float '
        '(fractional and negative fractional counts that are a whole number '
        'of microseconds)',
        'override': 'set_time_override with a single instant, '
        'advance_time_delta by any delta within +-365 days at microsecond '
        'resolution, advance_time_seconds by any integer in +-10^7 and by '
        'such an integer plus 1/2 or 63/64 s (float)',
        'marshalling': 'all seven fields symbolic over their ranges (valid '
        'calendar dates), naive and UTC; leap second',
        'outside': 'parse_isotime / ISO-string arguments (iso8601 not '
        'encoded), named zones (zoneinfo), list-valued overrides, fractional '
        'second counts other than n + k/64, the non-overridden clock',
        'TimeFixture': 'setUp / advance_time_delta / advance_time_seconds / '
        'cleanUp over the same symbolic instants',
    }


ASSUME = ['datetime model (symx/symdt.py): instants as integer '
          'microseconds, fixed offsets; every path is replayed on the real '
          'datetime module', 'calendar.timegm = floor((instant - epoch) / '
          '1 s) for model instants',
          'timedelta.total_seconds() = RNE(us / 10**6) (CPython int/int true '
          'division is correctly rounded); int() of it and comparisons with '
          'integers are encoded exactly in linear integer arithmetic '
          '(symdt.SecFloat), other float operations on it use the FP term',
          'datetime.timestamp() of an aware datetime = the same quotient; '
          'datetime.fromtimestamp(x, tz) rounds x to microseconds as the C '
          'code does (modf, * 1e6, round half even): exact LIA encoding from '
          '2**33 s up, and the identity below 2**33 s (argued: the float is '
          'within 2**-21 s < 0.5 us of the exact quotient); validated on '
          'samples by tests/validate_secfloat.py and by witness replay']

if __name__ == '__main__':
    sys.exit(common.main('C12', build_jobs, H, ASSUME, describe))
