"""Harnesses over oslo_utils.strutils (C04, C08, C10, C14, C16, C19)."""
import os
import sys

VERIF = os.path.dirname(os.path.dirname(os.path.abspath(__file__)))
sys.path.insert(0, VERIF)

from symx import core, env, h, run as R, sstr    # noqa: E402
from symx.core import AND, OR, NOT, ITE            # noqa: E402
from symx.sstr import SymStr, SymChar              # noqa: E402
from spec import sanitize as SZ                    # noqa: E402

SU = 'oslo_utils.strutils'


class Mods:
    pass


class _FakeUrlParse:
    @staticmethod
    def quote(s, *a, **k):
        return '<quoted>'          # only used to format error messages


class _FakeUrllib:
    parse = _FakeUrlParse()


def load_sym():
    ld = env.Loader(env={'urllib': _FakeUrllib()},
                    sym=['oslo_utils.encodeutils'])
    m = Mods()
    m.su = ld.load(SU)
    m.sha = ld.sha
    m.loader = ld
    return m


def load_real():
    m = Mods()
    m.su = env.import_real(SU)
    return m


def cat(*parts):
    """concatenate str / SymStr parts (works in both modes)"""
    out = parts[0]
    for p in parts[1:]:
        out = out + p
    return out


def sym_key(ctx, key, name='k'):
    """the key in symbolic letter case (one symbolic character per letter,
    domain {lower, upper}) plus an optional digit suffix"""
    if ctx.sym:
        chars = []
        for i, ch in enumerate(key):
            if ch.isalpha():
                chars.append(SymChar.fresh('%s_%d' % (name, i),
                                           {ord(ch), ord(ch.upper())}))
            else:
                chars.append(ord(ch))
        k = SymStr(chars)
        ctx.reg.append((name, 'str', k))
    else:
        k = ctx.i[name]
    suffix = ctx.choice(name + '_suffix', ['', '7', '42'])
    return cat(k, suffix) if suffix else k


def scen_mask(ctx, M):
    """mask_password on `prefix + rendering(key, secret) + suffix`: the
    result must be the same text with exactly the secret replaced by the
    mask; masking again changes nothing."""
    su = M.su
    p = ctx.p
    rname, before, mid, after, aclass = [r for r in SZ.RENDERINGS
                                         if r[0] == p['rendering']][0]
    key = sym_key(ctx, p['key'])
    n = ctx.choice('n', list(range(1, p['n'] + 1)))
    secret = ctx.str('v', n, SZ.ALPHABET[aclass])
    if aclass == 'bare-noeq':
        # `--key -x word` is the key-flag-value command form: a value that
        # starts with '-' cannot be carried unambiguously by `--key value`
        ctx.assume(NOT(secret[0] == '-'))
    mask = p.get('mask', '***')
    pre, post = p.get('context', ('error: x ', ' done.'))
    if '%(key)s' in after:
        # closing tag repeats the key as written
        after_txt = cat('</', key, '>')
    else:
        after_txt = after
    msg = cat(pre, before, key, mid, secret, after_txt, post)
    want = cat(pre, before, key, mid, mask, after_txt, post)
    if mask == '***':
        out = su.mask_password(msg)
    else:
        out = su.mask_password(msg, secret=mask)
    n1 = []
    if aclass == 'bare-noeq':
        # known finding N1: '=' inside a `--key value` secret
        has_eq = False
        for i in range(n):
            has_eq = OR(has_eq, secret[i] == '=')
        n1 = [('N1', has_eq)]
    ctx.check('C04-exactly-the-secret-masked', out == want, unless=n1)
    out2 = su.mask_password(out) if mask == '***' else \
        su.mask_password(out, secret=mask)
    ctx.check('C04-idempotent', out2 == out, unless=n1)
    ctx.goal('masked')
    return (out,)


def scen_mask_multi(ctx, M):
    """three secrets under the same key and rendering in one message"""
    su = M.su
    p = ctx.p
    rname, before, mid, after, aclass = [r for r in SZ.RENDERINGS
                                         if r[0] == p['rendering']][0]
    key = p['key']
    msg = 'start'
    want = 'start'
    for i in range(3):
        s = ctx.str('v%d' % i, 1, SZ.ALPHABET[aclass] - frozenset([61]))
        a = after % {'key': key} if '%(key)s' in after else after
        msg = cat(msg, ' ', before, key, mid, s, a, ' ;')
        want = cat(want, ' ', before, key, mid, '***', a, ' ;')
    out = su.mask_password(msg)
    # known finding W1: the wildcard pattern of the dict/JSON renderings
    # deletes the last quoted string of a message that has further quoted
    # text after the masked value
    w1 = [('W1', rname in ('json-dq', 'dict-sq', 'dict-u'))]
    ctx.check('C04-every-secret-masked', out == want, unless=w1)
    # even then no secret may survive: every value position holds the mask
    # or has been deleted, never the secret
    if rname in ('json-dq', 'dict-sq', 'dict-u'):
        for i in range(3):
            marker = cat(mid, ctx.i['v%d' % i] if not ctx.sym else
                         ctx_secret(ctx, 'v%d' % i), after[:1])
            ctx.check('C04-no-secret-survives-%d' % i,
                      NOT(contains(out, marker)))
    ctx.goal('masked')
    return (out,)


def ctx_secret(ctx, name):
    for n, kind, v in ctx.reg:
        if n == name:
            return v
    raise KeyError(name)


def contains(hay, needle):
    """substring test as a condition (no fork)"""
    if isinstance(hay, str) and isinstance(needle, str):
        return needle in hay
    import z3
    hc, nc = sstr.tosym(hay).c, sstr.tosym(needle).c
    alts = []
    for i in range(len(hc) - len(nc) + 1):
        t = sstr.match_here(hc, i, nc)
        if t is True:
            return True
        if t is not False:
            alts.append(t)
    if not alts:
        return False
    return core.wrapbool(z3.Or(*alts))


def scen_nokey(ctx, M):
    """a message containing no sanitize key is returned unchanged"""
    su = M.su
    n = ctx.choice('n', list(range(0, ctx.p['n'] + 1)))
    msg = ctx.str('m', n, ctx.p.get('domain') and frozenset(
        ctx.p['domain']) or sstr.ALPHA)
    low = msg.lower()
    for k in SZ.KEYS:
        if len(k) <= n:
            ctx.assume(NOT(k in low) if not ctx.sym else
                       _not_contains(low, k))
    out = su.mask_password(msg)
    ctx.check('C04-no-key-unchanged', out == msg)
    ctx.goal('unchanged')
    return (out,)


def _not_contains(s, k):
    import z3
    alts = []
    kc = [ord(c) for c in k]
    for i in range(len(s.c) - len(kc) + 1):
        t = sstr.match_here(s.c, i, kc)
        if t is True:
            return False
        if t is not False:
            alts.append(t)
    if not alts:
        return True
    return core.wrapbool(z3.Not(z3.Or(*alts)))


# ---------------------------------------------------------------- C08
import collections.abc as _abc


class FrozenMap(_abc.Mapping):
    """a non-dict Mapping over a list of (key, value) pairs (keys need not
    be hashable)"""
    def __init__(self, pairs):
        self._p = list(pairs)

    def __getitem__(self, k):
        for a, b in self._p:
            if a is k:
                return b
        raise KeyError(k)

    def __iter__(self):
        return iter([a for a, _ in self._p])

    def __len__(self):
        return len(self._p)

    def items(self):
        return list(self._p)


def key_matches(k):
    """reference: a string key contains a sanitize key, case-insensitively"""
    if not isinstance(k, (str, SymStr)):
        return False
    low = k.lower()
    return OR(*[contains(low, rk) for rk in SZ.KEYS])


def scen_maskdict(ctx, M):
    su = M.su
    p = ctx.p
    if ctx.sym:
        core.ENG.allow_symkey_hash = True
    ref = p.get('refkey', 'password')
    kind = p['keykind']
    if kind == 'exact':
        K = sym_key(ctx, ref)
    elif kind == 'embedded':
        K = cat(ctx.str('pre', 1), sym_key(ctx, ref), ctx.str('post', 1))
    elif kind == 'nearmiss':
        K = cat(ref[:-1], ctx.str('last', 1))
    else:
        K = ctx.str('key', p.get('klen', 3))
    vkind = p['value']
    secret = None
    if vkind == 'str':
        # '=' and a leading '-' are C04 matters (N1 / flag ambiguity)
        secret = ctx.str('v', 1, SZ.ALPHABET['bare'] - frozenset(b'=-'))
        V = cat('--password ', secret, ' x')
    elif vkind == 'plain':
        V = ctx.str('v', 2)
    elif vkind == 'int':
        V = 12345
    elif vkind == 'none':
        V = None
    elif vkind == 'list':
        V = ['password=abc', {'password': 'x'}]
    elif vkind == 'bytes':
        V = b'password=abc'
    sib = 'user'                      # concrete sibling key
    if isinstance(K, SymStr):
        ctx.assume(NOT(K == sib))
    else:
        ctx.assume(K != sib)
    inner_pairs = [(K, V), (sib, 'bob')]
    shape = p.get('shape', 'flat')
    if shape == 'flat':
        arg = FrozenMap(inner_pairs)
    elif shape == 'nested':
        arg = {'outer': FrozenMap(inner_pairs), 'n': 1}
    elif shape == 'nested-dict':
        arg = FrozenMap([('outer', FrozenMap(inner_pairs)), ('n', 1)])
    elif shape == 'nested3':
        arg = {'top': {'outer': FrozenMap(inner_pairs), 'n': 1}, 'm': [2]}
    before_pairs = list(inner_pairs)
    out = su.mask_dict_password(arg) if not p.get('mask') else \
        su.mask_dict_password(arg, secret=p['mask'])
    mask = p.get('mask', '***')
    ctx.check('C08-returns-new-dict', type(out) is dict and out is not arg)
    if shape == 'nested3':
        ctx.check('C08-nested3-keys', set(out.keys()) == {'top', 'm'} and
                  out['m'] is arg['m'] and type(out['top']) is dict)
        out = out['top']
    inner = out if shape == 'flat' else out['outer']
    if shape != 'flat':
        ctx.check('C08-nested-keys', set(out.keys()) == {'outer', 'n'} and
                  out['n'] == 1 and type(inner) is dict)
    ctx.check('C08-same-keys', len(inner) == 2 and sib in inner and
              any(k is K for k in inner))
    got = None
    for k, v in inner.items():
        if k is K:
            got = v
    ctx.check('C08-sibling', inner[sib] == 'bob')
    km = key_matches(K)
    if ctx.truth(km):
        ctx.goal('key-matched')
        ctx.check('C08-value-under-secret-key-masked',
                  isinstance(got, str) and got == mask)
    else:
        ctx.goal('key-not-matched')
        if vkind in ('str', 'plain'):
            ctx.check('C08-other-strings-through-mask_password',
                      got == (su.mask_password(V, secret=mask)))
            if vkind == 'str':
                ctx.check('C08-embedded-secret-masked',
                          got == cat('--password ', mask, ' x'))
        else:
            ctx.check('C08-other-values-untouched', got is V)
    # the argument is left unmodified
    ctx.check('C08-argument-unmodified',
              all(a is c and b is d for (a, b), (c, d) in
                  zip(inner_pairs, before_pairs)) and
              len(inner_pairs) == 2)
    return (got if isinstance(got, (str, SymStr)) else repr(got),)


def scen_maskdict_misc(ctx, M):
    """non-string keys are never matched; non-mapping arguments raise
    TypeError; the secret argument is honoured; lists are not recursed"""
    su = M.su
    v = ctx.str('v', 1, SZ.ALPHABET['bare'])
    sval = cat('token=', v)
    arg = {b'password': sval, ('token',): 5, 7: None, 'password': 9,
           'auth_token_x': [1], 'note': sval}
    snap = dict(arg)
    out = su.mask_dict_password(arg, secret='###')
    ctx.check('C08-keys', set(out.keys()) == set(snap.keys()))
    ctx.check('C08-bytes-key-not-matched', out[b'password'] == 'token=###')
    ctx.check('C08-tuple-key-untouched', out[('token',)] == 5)
    ctx.check('C08-int-key-untouched', out[7] is None)
    ctx.check('C08-nonstring-value-masked', out['password'] == '###')
    ctx.check('C08-list-value-masked', out['auth_token_x'] == '###')
    ctx.check('C08-plain-string-masked-text', out['note'] == 'token=###')
    ctx.check('C08-argument-unmodified',
              all(arg[k] is snap[k] for k in snap) and len(arg) == len(snap))
    # order matters to implementations that carry state from one key to the
    # next: a sensitive string key first, then non-string keys
    arg2 = {'password': 'x', 7: sval, b'k': 'plain', ('t',): None,
            'user': 'bob'}
    out2 = su.mask_dict_password(arg2, secret='###')
    ctx.check('C08-nonstring-key-after-sensitive-key',
              out2[7] == 'token=###' and out2[b'k'] == 'plain' and
              out2[('t',)] is None and out2['user'] == 'bob' and
              out2['password'] == '###')
    # mappings (dict or not) stored under a sensitive key are processed
    # recursively, not replaced by the mask
    arg3 = {'passwords': FrozenMap([('a', sval), ('token', 5)]),
            'tokens': {'x': 1, 'secret': 'y'}}
    out3 = su.mask_dict_password(arg3, secret='###')
    ctx.check('C08-mapping-under-sensitive-key-recursed',
              type(out3['passwords']) is dict and
              out3['passwords'].get('a') == 'token=###' and
              out3['passwords'].get('token') == '###' and
              out3['tokens'] == {'x': 1, 'secret': '###'})
    for bad in (5, 'password', None, [('password', 'x')]):
        try:
            su.mask_dict_password(bad)
            r = 'returned'
        except TypeError:
            r = 'TypeError'
        except Exception as e:
            r = type(e).__name__
        ctx.check('C08-non-mapping-TypeError', r == 'TypeError')
    ctx.goal('misc')
    return (out['note'],)


# ---------------------------------------------------------------- C14
import z3 as _z3

TRUE_WORDS = ('1', 't', 'true', 'on', 'y', 'yes')
FALSE_WORDS = ('0', 'f', 'false', 'off', 'n', 'no')


def _ct(ch):
    return sstr.cterm(ch)


def _ws(ch):
    if isinstance(ch, int):
        return ch in sstr.WS
    return core.set_term(_ct(ch), sstr.WS)


def _ci(ch, letter):
    """char equals `letter` case-insensitively (as a condition)"""
    want = {ord(letter), ord(letter.upper())}
    if isinstance(ch, int):
        return ch in want
    return core.set_term(_ct(ch), frozenset(want))


def word_padded(s, words, allow_pad=True):
    """condition: s is one of `words` (case-insensitive), optionally
    surrounded by whitespace.  No forks."""
    if isinstance(s, str):
        t = s.strip() if allow_pad else s
        return t.lower() in words
    c = s.c
    n = len(c)
    alts = []
    for w in words:
        m = len(w)
        for a in range(0, n - m + 1):
            if not allow_pad and (a != 0 or m != n):
                continue
            conj = [_ws(x) for x in c[:a]] + \
                [_ci(c[a + j], w[j]) for j in range(m)] + \
                [_ws(x) for x in c[a + m:]]
            if any(x is False for x in conj):
                continue
            conj = [x for x in conj if x is not True]
            alts.append(_z3.And(*conj) if conj else True)
    if any(a is True for a in alts):
        return True
    if not alts:
        return False
    return core.wrapbool(_z3.Or(*alts))


def scen_bool(ctx, M):
    su = M.su
    n = ctx.choice('n', list(range(0, ctx.p['n'] + 1)))
    s = ctx.str('s', n, frozenset(ctx.p['domain']) if ctx.p.get('domain')
                else sstr.ALPHA)
    strict = ctx.truth(ctx.bool('strict'))
    default = ctx.truth(ctx.bool('default'))
    try:
        r = su.bool_from_string(s, strict=strict, default=default)
        out = r
    except ValueError:
        out = 'ValueError'
    except Exception as e:
        out = 'EXC:' + type(e).__name__
    is_t = word_padded(s, TRUE_WORDS)
    is_f = word_padded(s, FALSE_WORDS)
    if out is True:
        ctx.check('C14-bool-true', OR(is_t, AND(NOT(is_f), default,
                                                   not strict)))
        ctx.goal('true')
    elif out is False:
        ctx.check('C14-bool-false', OR(is_f, AND(NOT(is_t), not default,
                                                    not strict)))
        ctx.goal('false')
    elif out == 'ValueError':
        ctx.check('C14-bool-valueerror', AND(strict, NOT(is_t), NOT(is_f)))
        ctx.goal('rejected')
    else:
        ctx.check('C14-bool-no-other-exception', False)
    v = su.is_valid_boolstr(s)
    ctx.check('C14-boolstr', h.veq(bool(v) if not ctx.sym else ctx.truth(v),
                                   OR(word_padded(s, TRUE_WORDS, False),
                                      word_padded(s, FALSE_WORDS, False))))
    # int_from_bool_as_string agrees
    r2 = su.int_from_bool_as_string(s)
    ctx.check('C14-int-from-bool', h.veq(r2 == 1, is_t) if not isinstance(
        r2, bool) else False)
    return (out,)


def scen_bool_nonstr(ctx, M):
    su = M.su
    i = ctx.int('i')
    strict = ctx.truth(ctx.bool('strict'))
    default = ctx.truth(ctx.bool('default'))
    try:
        out = su.bool_from_string(i, strict=strict, default=default)
    except ValueError:
        out = 'ValueError'
    if out is True:
        ctx.check('C14-bool-int', OR(i == 1, AND(i != 0, default)))
    elif out is False:
        ctx.check('C14-bool-int', OR(i == 0, AND(i != 1, not default)))
    else:
        ctx.check('C14-bool-int', AND(strict, i != 0, i != 1))
    for b in (True, False):
        ctx.check('C14-bool-passthrough',
                  su.bool_from_string(b, strict=strict,
                                      default=not b) is b)
    ctx.check('C14-intlike-int', h.veq(su.is_int_like(i), True))
    # only the canonical base-10 rendering of an integer is int-like
    for other in (True, False, None, 1.0, 1.5, b'1', [1]):
        ctx.check('C14-intlike-other-types', su.is_int_like(other) is False)
    ctx.goal('done')
    return (out,)


INTCHARS = frozenset(b'0123456789+-_ \t\n.eaxA')


def py_int_value(s):
    """reference for int(str): (accepted condition, value) with CPython's
    base-10 rules; no forks (conditions over the characters)"""
    if isinstance(s, str):
        try:
            return True, int(s)
        except ValueError:
            return False, 0
    c = s.c
    n = len(c)
    alts = []
    # choose padding a..b, optional sign, digit/underscore pattern
    for a in range(n + 1):
        for b in range(a + 1, n + 1):
            body = c[a:b]
            pad = [_ws(x) for x in c[:a]] + [_ws(x) for x in c[b:]]
            if any(x is False for x in pad):
                continue
            for sign in (0, 1):
                digs = body[sign:]
                if not digs:
                    continue
                sc = []
                if sign:
                    sc = [core.set_term(_ct(body[0]), frozenset(b'+-'))
                          if not isinstance(body[0], int)
                          else body[0] in b'+-']
                # digits with single underscores between digits
                for mask_ in _us_patterns(len(digs)):
                    conj = list(pad) + list(sc)
                    val = _z3.IntVal(0)
                    for ch, isus in zip(digs, mask_):
                        if isus:
                            conj.append((ch == 95) if isinstance(ch, int)
                                        else _ct(ch) == 95)
                        else:
                            conj.append((48 <= ch <= 57) if isinstance(
                                ch, int) else core.set_term(
                                    _ct(ch), sstr.DIGITS))
                            val = val * 10 + (_ct(ch) - 48)
                    if any(x is False for x in conj):
                        continue
                    conj = [x for x in conj if x is not True]
                    cond = _z3.And(*conj) if conj else _z3.BoolVal(True)
                    if sign:
                        neg = (body[0] == 45) if isinstance(body[0], int) \
                            else (_ct(body[0]) == 45)
                        val = _z3.If(neg, -val, val) if not isinstance(
                            neg, bool) else (-val if neg else val)
                    alts.append((cond, val))
    if not alts:
        return False, 0
    acc = core.wrapbool(_z3.Or(*[a for a, _ in alts]))
    v = _z3.IntVal(0)
    for cnd, val in reversed(alts):
        v = _z3.If(cnd, val, v)
    return acc, core.wrapint(v)


def _us_patterns(m):
    """underscore masks of length m: first and last are digits, no two
    adjacent underscores"""
    out = []

    def rec(i, cur):
        if i == m:
            if not cur[-1]:
                out.append(tuple(cur))
            return
        rec(i + 1, cur + [False])
        if i > 0 and not cur[-1]:
            rec(i + 1, cur + [True])
    rec(1, [False])
    return out


def canonical_cond(s):
    """condition: s is -?(0|[1-9][0-9]*) (and not '-0')"""
    if isinstance(s, str):
        import re
        return bool(re.fullmatch(r'-?(0|[1-9][0-9]*)', s)) and s != '-0'
    c = s.c
    n = len(c)
    alts = []
    for neg in (0, 1):
        d = c[neg:]
        if not d:
            continue
        conj = []
        if neg:
            conj.append((c[0] == 45) if isinstance(c[0], int)
                        else _ct(c[0]) == 45)
        for ch in d:
            conj.append((48 <= ch <= 57) if isinstance(ch, int)
                        else core.set_term(_ct(ch), sstr.DIGITS))
        if len(d) > 1 or neg:
            # no leading zero (and "-0" is not canonical)
            conj.append((d[0] != 48) if isinstance(d[0], int)
                        else _ct(d[0]) != 48)
        if any(x is False for x in conj):
            continue
        conj = [x for x in conj if x is not True]
        alts.append(_z3.And(*conj) if conj else _z3.BoolVal(True))
    if not alts:
        return False
    return core.wrapbool(_z3.Or(*alts))


def scen_intlike(ctx, M):
    su = M.su
    n = ctx.choice('n', list(range(0, ctx.p['n'] + 1)))
    s = ctx.str('s', n, INTCHARS)
    r = su.is_int_like(s)
    r = ctx.truth(r)
    ctx.check('C14-intlike', h.veq(r, canonical_cond(s)))
    ctx.goal('yes' if r else 'no')
    return (r,)


def scen_validate_int(ctx, M):
    su = M.su
    kind = ctx.p['kind']
    if kind == 'int':
        v = ctx.int('v')
        acc, val = True, v
    else:
        n = ctx.choice('n', list(range(0, ctx.p['n'] + 1)))
        v = ctx.str('s', n, INTCHARS)
        acc, val = py_int_value(v)
    lo = ctx.int('lo') if ctx.p.get('lo', True) else None
    hi = ctx.int('hi') if ctx.p.get('hi', True) else None
    try:
        r = su.validate_integer(v, 'x', lo, hi)
        out = 'ok'
    except ValueError:
        r, out = None, 'ValueError'
    except Exception as e:
        r, out = None, 'EXC:' + type(e).__name__
    inr = AND(acc, True if lo is None else val >= lo,
              True if hi is None else val <= hi)
    if out == 'ok':
        ctx.goal('accepted')
        ctx.check('C14-validate-accepts-only-valid', inr)
        ctx.check('C14-validate-returns-int', h.veq(r == val, True))
    elif out == 'ValueError':
        ctx.goal('rejected')
        ctx.check('C14-validate-rejects-only-invalid', NOT(inr))
    else:
        ctx.check('C14-validate-no-other-exception', False)
    return (out,)


def scen_strlen(ctx, M):
    su = M.su
    n = ctx.choice('n', list(range(0, ctx.p['n'] + 1)))
    s = ctx.str('s', n)
    lo = ctx.int('lo', 0, 8)
    has_max = ctx.truth(ctx.bool('has_max'))
    hi = ctx.int('hi', 1, 8) if has_max else None
    try:
        su.check_string_length(s, 'nm', min_length=lo, max_length=hi)
        out = 'ok'
    except ValueError:
        out = 'ValueError'
    except TypeError:
        out = 'TypeError'
    okc = AND(n >= lo, True if hi is None else n <= hi)
    ctx.check('C14-strlen', h.veq(out == 'ok', okc))
    ctx.check('C14-strlen-valueerror', out in ('ok', 'ValueError'))
    for bad in (5, None, b'ab', ['a']):
        try:
            su.check_string_length(bad, 'nm', min_length=0, max_length=hi)
            t = 'ok'
        except TypeError:
            t = 'TypeError'
        except Exception as e:
            t = type(e).__name__
        ctx.check('C14-strlen-type', t == 'TypeError')
    ctx.goal(out)
    return (out,)


# ---------------------------------------------------------------- C19
def ref_split(s, maxpieces):
    """split on '/' into at most maxpieces pieces, scanning manually"""
    pieces = []
    cur = s[0:0]
    for ch in s:
        if len(pieces) < maxpieces - 1 and ch == '/':
            pieces.append(cur)
            cur = s[0:0]
        else:
            cur = cur + ch
    pieces.append(cur)
    return pieces


def ref_split_path(path, minsegs, maxsegs, rwl):
    """reference from the C19 statement -> list or 'ValueError'"""
    if not maxsegs:
        maxsegs = minsegs
    if minsegs > maxsegs:
        return 'ValueError'
    if len(path) == 0 or not (path[0] == '/'):
        return 'ValueError'
    rest = path[1:]
    if rwl:
        pieces = ref_split(rest, maxsegs)
    else:
        pieces = ref_split(rest, maxsegs + 1)
        if len(pieces) == maxsegs + 1:
            # more than maxsegs segments: only a single trailing slash
            if len(pieces[maxsegs]) != 0:
                return 'ValueError'
            pieces = pieces[:maxsegs]
    if len(pieces) < minsegs:
        return 'ValueError'
    for i in range(minsegs):
        if len(pieces[i]) == 0:
            return 'ValueError'
    return pieces + [None] * (maxsegs - len(pieces))


def scen_split_path(ctx, M):
    su = M.su
    p = ctx.p
    n = ctx.choice('n', list(range(0, p['n'] + 1)))
    path = ctx.str('p', n, frozenset(b'/a .'))
    mn = p['minsegs']
    mx = p['maxsegs']
    rwl = p['rwl']
    if ctx.sym:
        core.ENG.allow_tokens = True       # urllib.parse.quote in messages
    try:
        r = su.split_path(path, mn, mx, rwl)
        out = list(r)
    except ValueError:
        out = 'ValueError'
    except Exception as e:
        out = 'EXC:' + type(e).__name__
    want = ref_split_path(path, mn, mx, rwl)
    if want == 'ValueError' or out == 'ValueError':
        ctx.check('C19-valueerror-iff', out == want)
        ctx.goal('rejected')
    else:
        ctx.goal('split')
        ctx.check('C19-length', isinstance(out, list) and
                  len(out) == len(want))
        if isinstance(out, list) and len(out) == len(want):
            for a, b in zip(out, want):
                if a is None or b is None:
                    ctx.check('C19-padding', a is None and b is None)
                else:
                    ctx.check('C19-segment', a == b)
    return (out if isinstance(out, str) else
            [x if x is None or isinstance(x, (str, SymStr)) else repr(x)
             for x in out],)


# ---------------------------------------------------------------- C10
from spec import units as UN                      # noqa: E402
DIG = frozenset(b'0123456789')
MAGDOM = frozenset(b'0123456789.x')
PREDOM = frozenset(b'kKMGTPEZYRQimx')
UNITDOM = frozenset(b'bitBx')


def number_shape(mag):
    """reference: mag is  D* '.'? D+  (forks on the characters)"""
    n = len(mag)
    i = 0
    while i < n and sstr.in_set(_c(mag, i), DIG):
        i += 1
    lead = i
    if i < n and sstr.in_set(_c(mag, i), frozenset(b'.')):
        i += 1
        j = i
        while j < n and sstr.in_set(_c(mag, j), DIG):
            j += 1
        return j == n and j > i
    return i == n and lead > 0


def _c(s, i):
    if isinstance(s, str):
        return ord(s[i])
    return s.c[i]


def scen_s2b(ctx, M):
    su = M.su
    p = ctx.p
    system = p['system']
    rint = p['return_int']
    sign = ctx.choice('sign', ['', '+', '-', ' '])
    nm = ctx.choice('nm', list(range(1, p['nmag'] + 1)))
    mag = ctx.str('mag', nm, MAGDOM)
    npre = ctx.choice('npre', [0, 1, 2])
    pre = ctx.str('pre', npre, PREDOM)
    nu = ctx.choice('nu', [1, 2, 3])
    unit = ctx.str('unit', nu, UNITDOM)
    text = cat(sign, mag, pre, unit)
    m = ctx.float('m', lo=-1e200, hi=1e200)     # no overflow to infinity
    seen = []

    def hook(s):
        seen.append(s)
        return m
    if ctx.sym:
        env.FLOAT_HOOK[0] = hook
    else:
        su.float = hook
    try:
        try:
            r = su.string_to_bytes(text, unit_system=system, return_int=rint)
            out = 'ok'
        except ValueError:
            r, out = None, 'ValueError'
        except Exception as e:
            r, out = None, 'EXC:' + type(e).__name__
    finally:
        if ctx.sym:
            env.FLOAT_HOOK[0] = None
        else:
            del su.float
    # reference: the text after the number must be prefix + unit for some
    # admitted prefix (possibly none) and unit
    table = UN.prefixes(system)
    ok = bool(table) and sign != ' ' and number_shape(mag)
    base = exp = div = None
    if ok:
        tail = cat(pre, unit)
        hit = None
        for pf, (b_, e_) in [('', (1, 0))] + sorted(table.items()):
            for u, d in UN.UNITS.items():
                if len(pf) + len(u) != npre + nu:
                    continue
                if ctx.truth(tail == pf + u):
                    hit = (b_, e_, d)
                    break
            if hit:
                break
        if hit is None:
            ok = False
        else:
            base, exp, div = hit
    if not ok:
        ctx.goal('rejected')
        ctx.check('C10-valueerror-for-inadmissible-text',
                  out == 'ValueError')
        return (out,)
    ctx.goal('accepted')
    ctx.check('C10-admitted-text-accepted', out == 'ok')
    if out != 'ok':
        return (out,)
    ctx.check('C10-number-part', len(seen) == 1 and
              (seen[0] == cat(sign, mag)) is not False and
              ctx.truth(seen[0] == cat(sign, mag)))
    q = m / 8 if div == 8 else m
    want = q * pow(base, exp) if exp else q
    if rint:
        if ctx.sym:
            wi = core.float_ceil_int(want)
        else:
            import math
            wi = int(math.ceil(want))
        ctx.check('C10-ceiling', h.veq(r == wi, True))
    else:
        ctx.check('C10-exact-quantity', core.same_float(r, want)
                  if ctx.sym else (r == want or (r != r and want != want)))
    return (out,)


# ---------------------------------------------------------------- C10 qemu
QE = 'oslo_utils.imageutils.qemu'


def load_sym_qemu():
    ld = env.Loader(env={'urllib': _FakeUrllib()},
                    sym=['oslo_utils.encodeutils', SU])
    m = Mods()
    m.qe = ld.load(QE)
    m.su = ld.load(SU)
    m.sha = ld.sha
    return m


def load_real_qemu():
    m = Mods()
    m.qe = env.import_real(QE)
    m.su = env.import_real(SU)
    return m


def scen_extract(ctx, M):
    """QemuImgInfo._extract_bytes on `<digits>[ ]<unit>[ (<digits> bytes)]`"""
    qe, su = M.qe, M.su
    nm = ctx.choice('nm', [1, 2])
    mag = ctx.str('mag', nm, DIG)
    sp = ctx.choice('sp', ['', ' '])
    nu = ctx.choice('nu', [0, 1, 2, 3])
    unit = ctx.str('unit', nu, frozenset(b'KMGTBibx'))
    has_bytes = ctx.choice('hb', [False, True])
    details = cat(mag, sp, unit)
    nb = None
    if has_bytes:
        nn = ctx.choice('nn', [1, 2, 3])
        nb = ctx.str('nb', nn, DIG)
        details = cat(details, ' (', nb, ' bytes)')
    m = ctx.float('m', lo=0.0, hi=1e200)
    seen = []

    def hook(s):
        seen.append(s)
        return m
    if ctx.sym:
        env.FLOAT_HOOK[0] = hook
        core.ENG.allow_tokens = True
    else:
        su.float = hook
    try:
        info = qe.QemuImgInfo.__new__(qe.QemuImgInfo)
        try:
            r = info._extract_bytes(details)
            out = 'ok'
        except ValueError:
            r, out = None, 'ValueError'
        except Exception as e:
            r, out = None, 'EXC:' + type(e).__name__
    finally:
        if ctx.sym:
            env.FLOAT_HOOK[0] = None
        else:
            del su.float
    if has_bytes:
        ctx.goal('explicit-bytes')
        ctx.check('C10-explicit-bytes-take-precedence',
                  out == 'ok' and h.veq(r == _dec(nb), True))
        return (out,)
    if nu == 0:
        ctx.goal('no-unit')
        ctx.check('C10-plain-number', out == 'ok' and
                  h.veq(r == _dec(mag), True))
        return (out,)
    # unit present: abbreviated single letters mean <letter>B, IEC
    u = unit
    if nu == 1 and not ctx.truth(unit == 'B'):
        u = cat(unit, 'B')
    table = UN.prefixes('IEC')
    hit = None
    for pf, (b_, e_) in [('', (1, 0))] + sorted(table.items()):
        for un_, d in UN.UNITS.items():
            if len(pf) + len(un_) == len(u) and ctx.truth(u == pf + un_):
                hit = (b_, e_, d)
                break
        if hit:
            break
    if hit is None:
        ctx.goal('bad-unit')
        ctx.check('C10-qemu-bad-unit-valueerror', out == 'ValueError')
        return (out,)
    ctx.goal('unit')
    base, exp, div = hit
    ctx.check('C10-qemu-unit-accepted', out == 'ok')
    if out == 'ok':
        q = m / 8 if div == 8 else m
        want = q * pow(base, exp) if exp else q
        if ctx.sym:
            wi = core.float_ceil_int(want)
        else:
            import math
            wi = int(math.ceil(want))
        ctx.check('C10-qemu-same-arithmetic', h.veq(r == wi, True))
        ctx.check('C10-qemu-number-part', len(seen) == 1 and
                  ctx.truth(seen[0] == mag))
    return (out,)


def _dec(s):
    """value of a digit string"""
    if isinstance(s, str):
        return int(s)
    return sstr.parse_int(s)


def scen_s2b_twice(ctx, M):
    """two consecutive calls with different unit systems: the second result
    must not depend on the first call (no state carried between calls)"""
    su = M.su
    # concrete prefix (a choice): implementations may key tables by it
    pre = ctx.choice('pre', list('kKMGTPEZYRQ'))
    text = '3' + pre + 'B'
    systems = ['IEC', 'SI', 'mixed']
    s1 = ctx.choice('sys1', systems)
    s2 = ctx.choice('sys2', systems)
    m = ctx.float('m', lo=-1e200, hi=1e200)

    def hook(s):
        return m
    if ctx.sym:
        env.FLOAT_HOOK[0] = hook
    else:
        su.float = hook
    outs = []
    try:
        for sysname in (s1, s2):
            try:
                outs.append(('ok', su.string_to_bytes(text,
                                                       unit_system=sysname)))
            except ValueError:
                outs.append(('ValueError', None))
            except Exception as e:
                outs.append(('EXC:' + type(e).__name__, None))
    finally:
        if ctx.sym:
            env.FLOAT_HOOK[0] = None
        else:
            del su.float
    for sysname, (out, r) in zip((s1, s2), outs):
        table = UN.prefixes(sysname)
        hit = None
        for pf, be in sorted(table.items()):
            if pre == pf:
                hit = be
        if hit is None:
            ctx.check('C10-twice-valueerror', out == 'ValueError')
        else:
            ctx.check('C10-twice-accepted', out == 'ok')
            if out == 'ok':
                want = m * pow(hit[0], hit[1])
                ctx.check('C10-twice-exact', core.same_float(r, want)
                          if ctx.sym else r == want)
    ctx.goal('done')
    return (outs[0][0], outs[1][0])


# ---------------------------------------------------------------- C14 uuid
UU = 'oslo_utils.uuidutils'
HEX32 = '0123456789abcdef0123456789ABCDEF'
UUDOM = frozenset(b'09afAFgz_x+- {}:')


def load_sym_uuid():
    from symx import symuuid
    ld = env.Loader(env={'uuid': symuuid.FakeUUIDModule})
    m = Mods()
    m.uu = ld.load(UU)
    m.sha = ld.sha
    return m


def load_real_uuid():
    m = Mods()
    m.uu = env.import_real(UU)
    return m


def decorate(kind, body):
    """body: 32 characters (str/SymStr)"""
    if kind == 'plain':
        return body
    if kind == 'hyphenated':
        return cat(body[:8], '-', body[8:12], '-', body[12:16], '-',
                   body[16:20], '-', body[20:])
    if kind == 'braced':
        return cat('{', decorate('hyphenated', body), '}')
    if kind == 'urn':
        return cat('urn:uuid:', decorate('hyphenated', body))
    raise ValueError(kind)


def scen_uuid_like(ctx, M):
    """is_uuid_like on a 30..34-character body with symbolic characters at
    chosen positions, in every decoration"""
    uu = M.uu
    kind = ctx.p['decoration']
    length = ctx.choice('length', ctx.p.get('lengths', [32]))
    base = (HEX32 * 2)[:length]
    pos = ctx.p['positions']
    chars = []
    for i, ch in enumerate(base):
        if i in pos or (i - length) in pos:
            chars.append(ctx.str('c%d' % i, 1, UUDOM))
        else:
            chars.append(ch)
    body = chars[0]
    for c_ in chars[1:]:
        body = cat(body, c_)
    if length == 32:
        val = decorate(kind, body)
    else:
        val = body if kind == 'plain' else cat('{', body, '}') \
            if kind == 'braced' else cat('urn:uuid:', body) \
            if kind == 'urn' else cat(body[:8], '-', body[8:])
    try:
        r = uu.is_uuid_like(val)
        out = 'ok'
    except Exception as e:
        r, out = None, 'EXC:' + type(e).__name__
    ctx.check('C14-uuid-never-raises', out == 'ok')
    # reference: decoration removed, exactly 32 hex digits
    norm = val.replace('urn:', '').replace('uuid:', '').strip('{}') \
        .replace('-', '')
    want = False
    if len(norm) == 32:
        import z3
        conj = []
        for ch in sstr.tosym(norm).c:
            if isinstance(ch, int):
                if ch not in sstr_hex():
                    conj = None
                    break
            else:
                conj.append(core.set_term(ch.term(), sstr_hex()))
        if conj is not None:
            want = core.wrapbool(z3.And(*conj)) if conj else True
    if out == 'ok':
        got = ctx.truth(r) if not isinstance(r, bool) else r
        ctx.check('C14-uuid-like', h.veq(got, want))
        ctx.goal('accepted' if got else 'rejected')
    return (out,)


def sstr_hex():
    return frozenset(b'0123456789abcdefABCDEF')


def scen_generate_uuid(ctx, M):
    """everything generate_uuid produces is uuid-like and well formed"""
    uu = M.uu
    if ctx.sym:
        from symx import symuuid
        bs = [ctx.byte_var('r%d' % k) for k in range(16)]
        for k, b in enumerate(bs):
            ctx.reg.append(('r%d' % k, 'int', b))
        symuuid.FakeUUIDModule.source = lambda: bs
        d = uu.generate_uuid()
        u = uu.generate_uuid(dashed=False)
    else:
        import uuid as _uuid
        import unittest.mock as mock
        raw = bytes(ctx.i['r%d' % k] for k in range(16))
        with mock.patch('os.urandom', lambda n: raw):
            d = uu.generate_uuid()
            u = uu.generate_uuid(dashed=False)
    ctx.check('C14-generate-shape', len(d) == 36 and len(u) == 32)
    for i in (8, 13, 18, 23):
        ctx.check('C14-generate-dashes', d[i] == '-')
    ctx.check('C14-generate-same-digits', d.replace('-', '') == u)
    ctx.check('C14-generated-is-uuid-like',
              h.veq(uu.is_uuid_like(d), True))
    ctx.check('C14-generated-undashed-is-uuid-like',
              h.veq(uu.is_uuid_like(u), True))
    ctx.check('C14-generate-version-4', d[14] == '4')
    ctx.goal('done')
    return ()


def scen_mask_mixed(ctx, M):
    """two secrets under the same key in two different renderings"""
    su = M.su
    p = ctx.p
    key = p['key']
    msg = 'start'
    want = 'start'
    for i, rn in enumerate(p['renderings']):
        rname, before, mid, after, aclass = [r for r in SZ.RENDERINGS
                                             if r[0] == rn][0]
        s = ctx.str('v%d' % i, 1, SZ.ALPHABET[aclass] - frozenset(b'=-'))
        a = after % {'key': key} if '%(key)s' in after else after
        msg = cat(msg, ' ', before, key, mid, s, a, ' ;')
        want = cat(want, ' ', before, key, mid, '***', a, ' ;')
    out = su.mask_password(msg)
    w1 = [('W1', any(r in ('json-dq', 'dict-sq', 'dict-u')
                     for r in p['renderings']))]
    ctx.check('C04-mixed-renderings-masked', out == want, unless=w1)
    ctx.check('C04-mixed-idempotent', su.mask_password(out) == out,
              unless=w1)
    ctx.goal('masked')
    return (out,)


def scen_mask_twice(ctx, M):
    """the same message masked twice with two different masks: the second
    result must carry the second mask (no state between calls)"""
    su = M.su
    rname, before, mid, after, aclass = [r for r in SZ.RENDERINGS
                                         if r[0] == ctx.p['rendering']][0]
    key = ctx.p['key']
    a = after % {'key': key} if '%(key)s' in after else after
    msg = 'x ' + before + key + mid + 'Sekr3t' + a + ' y'
    m1 = ctx.choice('mask1', ['***', 'X', '#'])
    m2 = ctx.choice('mask2', ['X', '***', '--'])
    o1 = su.mask_password(msg, secret=m1)
    o2 = su.mask_password(msg, secret=m2)
    ctx.check('C04-twice-first', o1 == 'x ' + before + key + mid + m1 + a
              + ' y')
    ctx.check('C04-twice-second', o2 == 'x ' + before + key + mid + m2 + a
              + ' y')
    ctx.goal('masked')
    return (o1, o2)


OVERLAPS = ['adminPassword', 'new_passphrase', 'admin_passphrase',
            'chapsecret_uuid', 'auth_tokensecret', 'xpassword',
            'sys_pswdtoken']


def scen_mask_overlap(ctx, M):
    """identifiers in which one sanitize key overlaps or follows another
    ('adminPassword' holds 'adminpass' and 'password'): the value is still
    masked, whichever key the implementation notices first"""
    su = M.su
    ident = ctx.choice('ident', OVERLAPS)
    rname, before, mid, after, aclass = [r for r in SZ.RENDERINGS
                                         if r[0] == ctx.p['rendering']][0]
    s = ctx.str('v', 1, SZ.ALPHABET[aclass] - frozenset(b'=-'))
    a = after % {'key': ident} if '%(key)s' in after else after
    msg = cat('x ', before, ident, mid, s, a, ' y')
    want = cat('x ', before, ident, mid, '***', a, ' y')
    out = su.mask_password(msg)
    # which idents end in a reference key directly before the value
    low = ident.lower()
    ends = any(low.endswith(k) for k in SZ.KEYS)
    if ends:
        ctx.check('C04-overlapping-keys-masked', out == want)
        ctx.goal('masked')
    return (out,)
