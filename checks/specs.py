"""Harnesses over oslo_utils.specs_matcher (C18).  pyparsing runs for real
on a concrete spec skeleton; numeric operands are placeholder literals that
the module's float() maps to symbolic doubles."""
import os
import sys

VERIF = os.path.dirname(os.path.dirname(os.path.abspath(__file__)))
sys.path.insert(0, VERIF)

from symx import core, env, h, run as R, sstr    # noqa: E402
from symx.core import AND, OR, NOT, ITE            # noqa: E402

SM = 'oslo_utils.specs_matcher'
PV, PA, PB = '987654321', '123456789', '555555555'


class Mods:
    pass


def load_sym():
    ld = env.Loader()
    m = Mods()
    m.sm = ld.load(SM)
    m.sha = ld.sha
    return m


def load_real():
    m = Mods()
    m.sm = env.import_real(SM)
    return m


class floats:
    """bind placeholder literals to doubles for the duration of a call"""
    def __init__(self, ctx, M, table):
        self.ctx, self.M, self.t = ctx, M, table

    def hook(self, x):
        k = str(x)
        if k in self.t:
            return self.t[k]
        return NotImplemented if self.ctx.sym else float(x)

    def __enter__(self):
        if self.ctx.sym:
            env.FLOAT_HOOK[0] = self.hook
        else:
            self.M.sm.float = self.hook
        return self

    def __exit__(self, *a):
        if self.ctx.sym:
            env.FLOAT_HOOK[0] = None
        else:
            del self.M.sm.float
        return False


NUM = {'=': lambda a, b: a >= b, '==': lambda a, b: a == b,
       '!=': lambda a, b: a != b, '<': lambda a, b: a < b,
       '<=': lambda a, b: a <= b, '>': lambda a, b: a > b,
       '>=': lambda a, b: a >= b}


def pad(ctx, name):
    return ctx.choice(name, [' ', '  ', '\t'])


def scen_numeric(ctx, M):
    sm = M.sm
    op = ctx.p['op']
    a = ctx.float('a')
    b = ctx.float('b')
    spec = op + pad(ctx, 'w1') + PA + ctx.choice('w2', ['', ' '])
    with floats(ctx, M, {PV: a, PA: b}):
        r = sm.match(PV, spec)
    ctx.check('C18-numeric-%s' % op, h.veq(r, NUM[op](a, b)))
    ctx.goal('done')
    return (ctx.truth(r),)


def scen_range(ctx, M):
    sm = M.sm
    lo_b = ctx.choice('lo_bracket', ['[', '('])
    hi_b = ctx.choice('hi_bracket', [']', ')'])
    x, lo, hi = ctx.float('x'), ctx.float('lo'), ctx.float('hi')
    spec = '<range-in> %s %s %s %s' % (lo_b, PA, PB, hi_b)
    with floats(ctx, M, {PV: x, PA: lo, PB: hi}):
        try:
            r = sm.match(PV, spec)
            out = 'ok'
        except TypeError:
            r, out = None, 'TypeError'
    if ctx.truth(lo > hi):
        ctx.goal('inverted')
        ctx.check('C18-range-inverted-bounds', out == 'TypeError')
        return (out,)
    ctx.goal('range')
    ctx.check('C18-range-returns', out == 'ok')
    if out == 'ok':
        lower = (x >= lo) if lo_b == '[' else (x > lo)
        upper = (x <= hi) if hi_b == ']' else (x < hi)
        ctx.check('C18-range-in', h.veq(r, AND(lower, upper)))
    return (out,)


SOPS = {'s==': lambda v, o: v == o, 's!=': lambda v, o: NOT(v == o),
        's<': lambda v, o: NOT(v >= o), 's<=': lambda v, o: NOT(v > o),
        's>': lambda v, o: NOT(v <= o), 's>=': lambda v, o: NOT(v < o)}
OPERANDS = ['b', 'abc', 'ab', 'B1', '2.1.0']


def scen_string(ctx, M):
    sm = M.sm
    op = ctx.p['op']
    n = ctx.choice('n', list(range(0, ctx.p['n'] + 1)))
    v = ctx.str('v', n, frozenset(b'abcAB12. '))
    operand = ctx.choice('operand', OPERANDS)
    if op in SOPS:
        r = sm.match(v, op + ' ' + operand)
        ctx.check('C18-string-%s' % op, h.veq(r, SOPS[op](v, operand)))
    elif op == '<in>':
        r = sm.match(v, '<in> ' + operand)
        from checks.strs import contains
        ctx.check('C18-in', h.veq(ctx.truth(r) if not isinstance(r, bool)
                                  else r, contains(v, operand)))
    elif op == '<or>':
        o2 = ctx.choice('operand2', OPERANDS)
        r = sm.match(v, '<or> %s <or> %s' % (operand, o2))
        ctx.check('C18-or', h.veq(ctx.truth(r) if not isinstance(r, bool)
                                  else r, OR(v == operand, v == o2)))
    else:                                   # no operator: plain equality
        r = sm.match(v, operand)
        ctx.check('C18-plain', h.veq(r, v == operand))
    ctx.goal('done')
    return ()
