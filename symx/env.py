"""Loading the code under test with symbolic-aware builtins and
environment models."""
import ast
import builtins as _b
import hashlib
import math as _math
import os
import struct as _struct
import sys
import types
import z3

from . import core
from .core import (Unsupported, SymInt, SymBool, SymFloat, wrapint, wrapbool,
                   toint, tobool, guard)
from .sbytes import SymBytes, asbytes
from .sstr import (SymStr, DecStr, SymChar, tosym, parse_int, lift,
                   has_token)
from . import symre

REPO = os.environ.get('SYMX_REPO', '/repo')

# ------------------------------------------------------------ message context
_MSG_LINES = {}     # filename -> set of line numbers inside raise/LOG calls


def _msg_lines(filename, tree):
    lines = set()

    def mark(node):
        end = getattr(node, 'end_lineno', node.lineno)
        lines.update(range(node.lineno, end + 1))

    for node in ast.walk(tree):
        if isinstance(node, ast.Raise):
            mark(node)
        elif isinstance(node, ast.Expr) and isinstance(node.value, ast.Call):
            f = node.value.func
            if isinstance(f, ast.Attribute):
                if (isinstance(f.value, ast.Name) and f.value.id == 'LOG') \
                        or f.attr == '_trace':
                    mark(node)
        elif isinstance(node, ast.Assign):
            # msg = _("...") % {...}
            if any(isinstance(t, ast.Name) and t.id in ('msg', 'message')
                   for t in node.targets) and \
                    isinstance(node.value, ast.BinOp) and \
                    isinstance(node.value.op, ast.Mod):
                mark(node)
    _MSG_LINES[filename] = lines


def in_message_context():
    """True when the innermost frame of loaded repo code is executing a
    raise statement, a LOG.* / _trace call or a `msg = ... % ...`
    assignment (allow-list computed from the AST at load time)."""
    f = sys._getframe(1)
    while f is not None:
        fn = f.f_code.co_filename
        lines = _MSG_LINES.get(fn)
        if lines is not None:
            return f.f_lineno in lines
        f = f.f_back
    return False


class Msg(str):
    """result of _(...): formatting arguments are swallowed"""
    def __mod__(self, args):
        return self

    def __str__(self):
        return str.__str__(self)


def fake_translate(s):
    return Msg(s)


class NullLogger:
    def _n(self, *a, **k):
        pass
    debug = info = warning = error = exception = critical = log = _n
    disabled = True

    def isEnabledFor(self, *a):
        return False


class FakeLogging:
    DEBUG, INFO, WARNING, ERROR, CRITICAL = 10, 20, 30, 40, 50

    @staticmethod
    def basicConfig(**kw):
        pass

    @staticmethod
    def getLogger(name=None):
        return NullLogger()


# ------------------------------------------------------------ builtins
def sym_len(x):
    if isinstance(x, SymBytes) or hasattr(type(x), 'sym_len'):
        return x.sym_len()
    if has_token(x):
        return len(lift(x))
    return _b.len(x)


def _minmax(a, kw, ismax):
    if kw or len(a) < 2:
        if len(a) == 1 and not kw:
            items = list(a[0])
            return _minmax(tuple(items), {}, ismax) if len(items) > 1 \
                else items[0]
        return (_b.max if ismax else _b.min)(*a, **kw)
    if not any(isinstance(x, (SymInt, SymFloat)) for x in a):
        return (_b.max if ismax else _b.min)(*a)
    best = a[0]
    for x in a[1:]:
        # python: max returns the first maximal element
        c = (x > best) if ismax else (x < best)
        if c:           # forks when undetermined (keeps terms linear)
            best = x
    return best


def sym_min(*a, **kw):
    return _minmax(a, kw, False)


def sym_max(*a, **kw):
    return _minmax(a, kw, True)


def sym_range(*a):
    if any(isinstance(x, SymInt) for x in a):
        if len(a) == 1:
            lo, hi = 0, a[0]
        elif len(a) == 2:
            lo, hi = a
        else:
            raise Unsupported('range step')
        if isinstance(lo, SymInt):
            raise Unsupported('range with symbolic start')

        def gen():
            i = lo
            while i < hi:      # forks once per iteration
                yield i
                i += 1
        return gen()
    return _b.range(*a)


def sym_abs(x):
    if isinstance(x, (SymInt, SymFloat)):
        return x.__abs__()
    return _b.abs(x)


def sym_bin(x):
    if isinstance(x, SymInt):
        if in_message_context():
            return '<bin>'
        raise Unsupported('bin() of symbolic int')
    return _b.bin(x)


def sym_pow(a, b, *m):
    if isinstance(a, (SymInt, SymFloat)) or isinstance(b, (SymInt, SymFloat)):
        raise Unsupported('pow with symbolic operand')
    return _b.pow(a, b, *m)


def sym_all(it):
    for x in it:
        if not x:
            return False
    return True


def sym_any(it):
    for x in it:
        if x:
            return True
    return False


def sym_sum(it, start=0):
    r = start
    for x in it:
        r = r + x
    return r


def sym_ord(x):
    if isinstance(x, SymStr):
        if len(x.c) != 1:
            raise core.deliberate(TypeError('ord() expected a character'))
        ch = x.c[0]
        return ch if isinstance(ch, int) else wrapint(ch.term())
    return _b.ord(x)


def sym_hash(x):
    if isinstance(x, (SymInt, SymBool, SymFloat, SymStr, SymBytes, DecStr)):
        raise Unsupported('hash of a symbolic value')
    return _b.hash(x)


def sym_repr(x):
    if isinstance(x, (SymInt, SymBool, SymFloat, SymStr, SymBytes, DecStr)):
        if in_message_context():
            return '<sym>'
        raise Unsupported('repr of a symbolic value')
    return _b.repr(x)


class Shim:
    """replacement for a builtin type used both as constructor and in
    isinstance()"""
    def __init__(self, real, proxies, ctor):
        self.real = real
        self.proxies = proxies
        self.ctor = ctor
        self.__name__ = real.__name__

    def __call__(self, *a, **k):
        return self.ctor(*a, **k)

    def __getattr__(self, name):
        return getattr(self.real, name)

    def __repr__(self):
        return repr(self.real)


def _ctor_bool(x=False):
    if isinstance(x, SymBool):
        return x.__bool__()
    if isinstance(x, (SymInt, SymFloat, SymBytes, SymStr)):
        return x.__bool__()
    return _b.bool(x)


def _ctor_int(x=0, base=None):
    if base is not None:
        if isinstance(x, (SymStr, DecStr)):
            if base == 16 and isinstance(x, SymStr):
                from . import symuuid
                return symuuid.parse_hex(x)
            raise Unsupported('int(symbolic, base %r)' % (base,))
        return _b.int(x, base)
    if isinstance(x, SymInt):
        return x
    if hasattr(x, '__symint__'):
        return x.__symint__()
    if isinstance(x, SymBool):
        return wrapint(toint(x))
    if isinstance(x, SymFloat):
        return core.float_trunc_int(x)
    if isinstance(x, (SymStr, DecStr)):
        return parse_int(x)
    if has_token(x):
        return parse_int(lift(x))
    if isinstance(x, SymBytes):
        raise Unsupported('int(bytes)')
    return _b.int(x)


FLOAT_HOOK = [None]     # harness-supplied: SymStr/str -> float-like


def _ctor_float(x=0.0):
    if isinstance(x, SymFloat):
        return x
    if isinstance(x, (SymInt, SymBool)):
        return core.tofloat_obj(x)
    if isinstance(x, (SymStr, DecStr)) or has_token(x):
        if FLOAT_HOOK[0] is None:
            raise Unsupported('float() of a symbolic string')
        return FLOAT_HOOK[0](lift(x))
    if FLOAT_HOOK[0] is not None and isinstance(x, (str, int)) and \
            not isinstance(x, bool):
        r = FLOAT_HOOK[0](x)
        if r is not NotImplemented:
            return r
    return _b.float(x)


def _ctor_str(x='', *a):
    if a:
        return _b.str(x, *a)
    if isinstance(x, (SymStr, DecStr)):
        return x
    if isinstance(x, SymInt):
        d = DecStr(x.t)
        if getattr(core.ENG, 'str_tokens', False):
            # audited harnesses only: the caller hands the result to a
            # C-level str method ('.'.join, format) that needs a real str
            from .sstr import tokenize
            return tokenize(d)
        return d
    if isinstance(x, SymBool):
        raise Unsupported('str(SymBool)')
    if isinstance(x, SymFloat):
        raise Unsupported('str(SymFloat)')
    if isinstance(x, SymBytes):
        raise Unsupported('str(SymBytes)')
    if hasattr(x, '__symstr__'):
        return x.__symstr__()
    return _b.str(x)


def _ctor_bytes(*a, **k):
    if a and isinstance(a[0], SymBytes):
        return a[0]
    return _b.bytes(*a, **k)


SHIMS = {
    'bool': Shim(bool, (SymBool,), _ctor_bool),
    'int': Shim(int, (SymInt,), _ctor_int),
    'float': Shim(float, (SymFloat,), _ctor_float),
    'str': Shim(str, (SymStr, DecStr), _ctor_str),
    'bytes': Shim(bytes, (SymBytes,), _ctor_bytes),
}
_REAL2SHIM = {s.real: s for s in SHIMS.values()}


def sym_isinstance(o, t):
    if _b.isinstance(t, tuple):
        return any(sym_isinstance(o, x) for x in t)
    sh = t if _b.isinstance(t, Shim) else _REAL2SHIM.get(t)
    if sh is not None:
        if _b.isinstance(o, sh.proxies):
            return True
        if sh.real is int and _b.isinstance(o, SymBool):
            return True            # bool is an int
        return _b.isinstance(o, sh.real)
    return _b.isinstance(o, t)


def sym_issubclass(c, t):
    if _b.isinstance(t, Shim):
        t = t.real
    if _b.isinstance(c, Shim):
        c = c.real
    return _b.issubclass(c, t)


def sym_type(*a):
    if len(a) == 1:
        o = a[0]
        for sh in SHIMS.values():
            if _b.isinstance(o, sh.proxies):
                return sh.real
        return _b.type(o)
    return _b.type(*a)


def sym_sorted(it, key=None, reverse=False):
    items = list(it)
    if any(isinstance(x, (SymInt, SymFloat, SymStr)) for x in items):
        raise Unsupported('sorted over symbolic values')
    return _b.sorted(items, key=key, reverse=reverse)


def make_builtins(extra=None):
    bd = dict(vars(_b))
    bd.update(len=sym_len, min=sym_min, max=sym_max, range=sym_range,
              abs=sym_abs, bin=sym_bin, pow=sym_pow, all=sym_all,
              any=sym_any, sum=sym_sum, ord=sym_ord, hash=sym_hash,
              repr=sym_repr, isinstance=sym_isinstance,
              issubclass=sym_issubclass, sorted=sym_sorted, type=sym_type)
    bd.update(SHIMS)
    if extra:
        bd.update(extra)
    return bd


# ------------------------------------------------------------ struct model
class SymStruct:
    error = _struct.error
    calcsize = staticmethod(_struct.calcsize)
    pack = staticmethod(_struct.pack)

    @staticmethod
    @guard
    def unpack(fmt, buf):
        if not isinstance(buf, SymBytes):
            try:
                return _struct.unpack(fmt, buf)
            except _struct.error as e:
                raise core.deliberate(e)
        import re
        need = _struct.calcsize(fmt)
        E = core.ENG
        L = buf.len_t()
        if not E.branch(L == need):
            raise core.deliberate(_struct.error(
                'unpack requires a buffer of %d bytes' % need))
        if fmt[0] not in '<>':
            raise Unsupported('struct native format %r' % fmt)
        little = fmt[0] == '<'
        out = []
        off = 0
        for cnt, ch in re.findall(r'(\d*)([a-zA-Z?])', fmt[1:]):
            cnt = int(cnt) if cnt else 1
            if ch == 's':
                out.append(buf[off:off + cnt])
                off += cnt
                continue
            if ch == 'x':
                off += cnt
                continue
            size = {'B': 1, 'b': 1, 'H': 2, 'h': 2, 'I': 4, 'i': 4,
                    'L': 4, 'l': 4, 'Q': 8, 'q': 8}.get(ch)
            if size is None:
                raise Unsupported('struct code %r' % ch)
            for _ in range(cnt):
                t = z3.IntVal(0)
                for k in range(size):
                    byte = buf.at(z3.IntVal(off + k))
                    w = k if little else size - 1 - k
                    t = t + byte * (256 ** w)
                if ch.islower():
                    t = z3.If(t >= 2 ** (8 * size - 1), t - 2 ** (8 * size),
                              t)
                out.append(wrapint(t))
                off += size
        return tuple(out)


class SymMath:
    """math module seen by loaded code"""
    def __getattr__(self, name):
        return getattr(_math, name)

    @staticmethod
    def ceil(x):
        if isinstance(x, SymFloat):
            return core.float_ceil_int(x)
        if isinstance(x, SymInt):
            return x
        return _math.ceil(x)

    @staticmethod
    def floor(x):
        if isinstance(x, (SymFloat,)):
            raise Unsupported('math.floor on symbolic float')
        return _math.floor(x)


# ------------------------------------------------------------ loader
class Loader:
    """Loads repo modules from the working tree into fresh module objects
    with private builtins; `env` maps top-level import names to model
    modules, `sym` names further oslo_utils submodules to load the same
    way when imported."""

    def __init__(self, env=None, sym=(), builtins_extra=None, attrs=None):
        self.re = symre.ReModule()
        self.env = {'struct': SymStruct, 'logging': FakeLogging,
                    're': self.re, 'math': SymMath()}
        if env:
            self.env.update(env)
        self.sym = set(sym)
        self.mods = {}
        self.sha = {}
        self.builtins = make_builtins(builtins_extra)
        self.builtins['__import__'] = self._import
        self.attrs = attrs or {}

    def _import(self, name, globals=None, locals=None, fromlist=(), level=0):
        if level == 0:
            top = name.split('.')[0]
            if name in self.env:
                return self.env[name]
            if name == 'oslo_utils._i18n':
                m = types.ModuleType(name)
                m._ = fake_translate
                return m
            if name.startswith('oslo_utils.') and name in self.sym:
                return self.load(name)
            if (name == 'oslo_utils' or name.startswith('oslo_utils.')) \
                    and fromlist and name not in self.sym:
                # from oslo_utils[.pkg] import x, y
                pkg = types.ModuleType(name)
                real = _b.__import__(name, globals, locals, fromlist, level)
                for f in fromlist:
                    full = name + '.' + f
                    if full in self.sym:
                        setattr(pkg, f, self.load(full))
                    elif full == 'oslo_utils._i18n':
                        m = types.ModuleType(full)
                        m._ = fake_translate
                        setattr(pkg, f, m)
                    else:
                        setattr(pkg, f, getattr(real, f))
                return pkg
            if top in self.env and '.' in name:
                base = self.env[top]
                if fromlist:
                    for part in name.split('.')[1:]:
                        base = getattr(base, part)
                return base
        return _b.__import__(name, globals, locals, fromlist, level)

    def path_of(self, name):
        return os.path.join(REPO, *name.split('.')) + '.py'

    def load(self, name):
        if name in self.mods:
            return self.mods[name]
        path = self.path_of(name)
        src = open(path).read()
        self.sha[path] = hashlib.sha256(src.encode()).hexdigest()
        tree = ast.parse(src, path)
        _msg_lines(path, tree)
        mod = types.ModuleType(name)
        mod.__dict__['__builtins__'] = self.builtins
        mod.__file__ = path
        mod.__package__ = name.rpartition('.')[0]
        self.mods[name] = mod
        code = compile(tree, path, 'exec')
        exec(code, mod.__dict__)
        for k, v in list(vars(mod).items()):
            if type(v) is dict and v and not k.startswith('__') and \
                    all(isinstance(x, str) for x in v):
                setattr(mod, k, SymKeyDict(v))
            elif isinstance(v, type) and getattr(v, '__module__', '') == \
                    name:
                for ck, cv in list(vars(v).items()):
                    if type(cv) is dict and cv and all(
                            isinstance(x, str) for x in cv):
                        setattr(v, ck, SymKeyDict(cv))
        for k, v in self.attrs.get(name, {}).items():
            setattr(mod, k, v)
        return mod


class SymKeyDict(dict):
    """a module-level table with concrete string keys, looked up with a
    symbolic key: the lookup forks over the keys (same content as the
    repo's dict literal)"""
    def _find(self, k):
        for key in dict.keys(self):
            if isinstance(key, str) and len(key) == len(k) and (k == key):
                return key
        return None

    def __getitem__(self, k):
        if isinstance(k, SymStr):
            key = self._find(k)
            if key is None:
                raise core.deliberate(KeyError('<symbolic key>'))
            return dict.__getitem__(self, key)
        return dict.__getitem__(self, k)

    def __contains__(self, k):
        if isinstance(k, SymStr):
            return self._find(k) is not None
        return dict.__contains__(self, k)

    def get(self, k, default=None):
        if isinstance(k, SymStr):
            key = self._find(k)
            return default if key is None else dict.__getitem__(self, key)
        return dict.get(self, k, default)


class CallRecorder:
    """records which functions of files under the repo were executed
    (sys.monitoring PY_START, disabled per code object after the first hit,
    so the overhead is negligible)"""
    def __init__(self):
        self.seen = set()

    def __enter__(self):
        mon = sys.monitoring
        self.tool = mon.PROFILER_ID
        try:
            mon.use_tool_id(self.tool, 'symx')
        except ValueError:
            self.tool = None
            return self

        def start(code, offset):
            fn = code.co_filename
            if fn.startswith(REPO + '/'):
                self.seen.add('%s:%s' % (fn[len(REPO) + 1:],
                                         code.co_qualname))
            return mon.DISABLE
        mon.register_callback(self.tool, mon.events.PY_START, start)
        mon.set_events(self.tool, mon.events.PY_START)
        return self

    def __exit__(self, *a):
        if self.tool is not None:
            mon = sys.monitoring
            mon.set_events(self.tool, 0)
            mon.register_callback(self.tool, mon.events.PY_START, None)
            mon.free_tool_id(self.tool)


def deterministic_hashes(mod, classes, flip=False):
    """Give instances of the named classes of a loaded module a
    deterministic hash (per-path creation order), because the code under
    test iterates over sets of them."""
    sign = -1 if flip else 1

    def mk():
        def __hash__(self):
            h = self.__dict__.get('_symx_id')
            if h is None:
                h = core.ENG.next_obj_id() if core.ENG else id(self)
                self.__dict__['_symx_id'] = h
            return (sign * h * 2654435761) & 0xFFFFFFF
        return __hash__
    for c in classes:
        getattr(mod, c).__hash__ = mk()


def import_real(name):
    """normal import of a repo module for concrete replay; must resolve to
    the tree under test"""
    import importlib
    import logging
    logging.disable(logging.CRITICAL)
    m = importlib.import_module(name)
    f = os.path.realpath(m.__file__)
    if not f.startswith(os.path.realpath(REPO) + '/'):
        raise core.EngineError('real import of %s resolved to %s, not under '
                               '%s' % (name, f, REPO))
    return m
