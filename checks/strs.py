"""Harnesses over oslo_utils.strutils (C04, C08, C10, C14, C16, C19)."""
import os
import sys

VERIF = os.path.dirname(os.path.dirname(os.path.abspath(__file__)))
sys.path.insert(0, VERIF)

from symx import core, env, h, run as R, sstr    # noqa: E402
from symx.core import AND, OR, NOT, ITE            # noqa: E402
from symx.sstr import SymStr, SymChar              # noqa: E402
from spec import sanitize as SZ                    # noqa: E402

SU = 'oslo_utils.strutils'


class Mods:
    pass


def load_sym():
    ld = env.Loader(sym=['oslo_utils.encodeutils'])
    m = Mods()
    m.su = ld.load(SU)
    m.sha = ld.sha
    m.loader = ld
    return m


def load_real():
    m = Mods()
    m.su = env.import_real(SU)
    return m


def cat(*parts):
    """concatenate str / SymStr parts (works in both modes)"""
    out = parts[0]
    for p in parts[1:]:
        out = out + p
    return out


def sym_key(ctx, key, name='k'):
    """the key in symbolic letter case (one symbolic character per letter,
    domain {lower, upper}) plus an optional digit suffix"""
    if ctx.sym:
        chars = []
        for i, ch in enumerate(key):
            if ch.isalpha():
                chars.append(SymChar.fresh('%s_%d' % (name, i),
                                           {ord(ch), ord(ch.upper())}))
            else:
                chars.append(ord(ch))
        k = SymStr(chars)
        ctx.reg.append((name, 'str', k))
    else:
        k = ctx.i[name]
    suffix = ctx.choice(name + '_suffix', ['', '7', '42'])
    return cat(k, suffix) if suffix else k


def scen_mask(ctx, M):
    """mask_password on `prefix + rendering(key, secret) + suffix`: the
    result must be the same text with exactly the secret replaced by the
    mask; masking again changes nothing."""
    su = M.su
    p = ctx.p
    rname, before, mid, after, aclass = [r for r in SZ.RENDERINGS
                                         if r[0] == p['rendering']][0]
    key = sym_key(ctx, p['key'])
    n = ctx.choice('n', list(range(1, p['n'] + 1)))
    secret = ctx.str('v', n, SZ.ALPHABET[aclass])
    if aclass == 'bare-noeq':
        # `--key -x word` is the key-flag-value command form: a value that
        # starts with '-' cannot be carried unambiguously by `--key value`
        ctx.assume(NOT(secret[0] == '-'))
    mask = p.get('mask', '***')
    pre, post = p.get('context', ('error: x ', ' done.'))
    if '%(key)s' in after:
        # closing tag repeats the key as written
        after_txt = cat('</', key, '>')
    else:
        after_txt = after
    msg = cat(pre, before, key, mid, secret, after_txt, post)
    want = cat(pre, before, key, mid, mask, after_txt, post)
    if mask == '***':
        out = su.mask_password(msg)
    else:
        out = su.mask_password(msg, secret=mask)
    n1 = []
    if aclass == 'bare-noeq':
        # known finding N1: '=' inside a `--key value` secret
        has_eq = False
        for i in range(n):
            has_eq = OR(has_eq, secret[i] == '=')
        n1 = [('N1', has_eq)]
    ctx.check('C04-exactly-the-secret-masked', out == want, unless=n1)
    out2 = su.mask_password(out) if mask == '***' else \
        su.mask_password(out, secret=mask)
    ctx.check('C04-idempotent', out2 == out, unless=n1)
    ctx.goal('masked')
    return (out,)


def scen_mask_multi(ctx, M):
    """three secrets under the same key and rendering in one message"""
    su = M.su
    p = ctx.p
    rname, before, mid, after, aclass = [r for r in SZ.RENDERINGS
                                         if r[0] == p['rendering']][0]
    key = p['key']
    msg = 'start'
    want = 'start'
    for i in range(3):
        s = ctx.str('v%d' % i, 1, SZ.ALPHABET[aclass] - frozenset([61]))
        a = after % {'key': key} if '%(key)s' in after else after
        msg = cat(msg, ' ', before, key, mid, s, a, ' ;')
        want = cat(want, ' ', before, key, mid, '***', a, ' ;')
    out = su.mask_password(msg)
    # known finding W1: the wildcard pattern of the dict/JSON renderings
    # deletes the last quoted string of a message that has further quoted
    # text after the masked value
    w1 = [('W1', rname in ('json-dq', 'dict-sq', 'dict-u'))]
    ctx.check('C04-every-secret-masked', out == want, unless=w1)
    # even then no secret may survive: every value position holds the mask
    # or has been deleted, never the secret
    if rname in ('json-dq', 'dict-sq', 'dict-u'):
        for i in range(3):
            marker = cat(mid, ctx.i['v%d' % i] if not ctx.sym else
                         ctx_secret(ctx, 'v%d' % i), after[:1])
            ctx.check('C04-no-secret-survives-%d' % i,
                      NOT(contains(out, marker)))
    ctx.goal('masked')
    return (out,)


def ctx_secret(ctx, name):
    for n, kind, v in ctx.reg:
        if n == name:
            return v
    raise KeyError(name)


def contains(hay, needle):
    """substring test as a condition (no fork)"""
    if isinstance(hay, str) and isinstance(needle, str):
        return needle in hay
    import z3
    hc, nc = sstr.tosym(hay).c, sstr.tosym(needle).c
    alts = []
    for i in range(len(hc) - len(nc) + 1):
        t = sstr.match_here(hc, i, nc)
        if t is True:
            return True
        if t is not False:
            alts.append(t)
    if not alts:
        return False
    return core.wrapbool(z3.Or(*alts))


def scen_nokey(ctx, M):
    """a message containing no sanitize key is returned unchanged"""
    su = M.su
    n = ctx.choice('n', list(range(0, ctx.p['n'] + 1)))
    msg = ctx.str('m', n, ctx.p.get('domain') and frozenset(
        ctx.p['domain']) or sstr.ALPHA)
    low = msg.lower()
    for k in SZ.KEYS:
        if len(k) <= n:
            ctx.assume(NOT(k in low) if not ctx.sym else
                       _not_contains(low, k))
    out = su.mask_password(msg)
    ctx.check('C04-no-key-unchanged', out == msg)
    ctx.goal('unchanged')
    return (out,)


def _not_contains(s, k):
    import z3
    alts = []
    kc = [ord(c) for c in k]
    for i in range(len(s.c) - len(kc) + 1):
        t = sstr.match_here(s.c, i, kc)
        if t is True:
            return False
        if t is not False:
            alts.append(t)
    if not alts:
        return True
    return core.wrapbool(z3.Not(z3.Or(*alts)))


# ---------------------------------------------------------------- C08
import collections.abc as _abc


class FrozenMap(_abc.Mapping):
    """a non-dict Mapping over a list of (key, value) pairs (keys need not
    be hashable)"""
    def __init__(self, pairs):
        self._p = list(pairs)

    def __getitem__(self, k):
        for a, b in self._p:
            if a is k:
                return b
        raise KeyError(k)

    def __iter__(self):
        return iter([a for a, _ in self._p])

    def __len__(self):
        return len(self._p)

    def items(self):
        return list(self._p)


def key_matches(k):
    """reference: a string key contains a sanitize key, case-insensitively"""
    if not isinstance(k, (str, SymStr)):
        return False
    low = k.lower()
    return OR(*[contains(low, rk) for rk in SZ.KEYS])


def scen_maskdict(ctx, M):
    su = M.su
    p = ctx.p
    if ctx.sym:
        core.ENG.allow_symkey_hash = True
    ref = p.get('refkey', 'password')
    kind = p['keykind']
    if kind == 'exact':
        K = sym_key(ctx, ref)
    elif kind == 'embedded':
        K = cat(ctx.str('pre', 1), sym_key(ctx, ref), ctx.str('post', 1))
    elif kind == 'nearmiss':
        K = cat(ref[:-1], ctx.str('last', 1))
    else:
        K = ctx.str('key', p.get('klen', 3))
    vkind = p['value']
    secret = None
    if vkind == 'str':
        # '=' and a leading '-' are C04 matters (N1 / flag ambiguity)
        secret = ctx.str('v', 1, SZ.ALPHABET['bare'] - frozenset(b'=-'))
        V = cat('--password ', secret, ' x')
    elif vkind == 'plain':
        V = ctx.str('v', 2)
    elif vkind == 'int':
        V = 12345
    elif vkind == 'none':
        V = None
    elif vkind == 'list':
        V = ['password=abc', {'password': 'x'}]
    elif vkind == 'bytes':
        V = b'password=abc'
    sib = 'user'                      # concrete sibling key
    if isinstance(K, SymStr):
        ctx.assume(NOT(K == sib))
    else:
        ctx.assume(K != sib)
    inner_pairs = [(K, V), (sib, 'bob')]
    shape = p.get('shape', 'flat')
    if shape == 'flat':
        arg = FrozenMap(inner_pairs)
    elif shape == 'nested':
        arg = {'outer': FrozenMap(inner_pairs), 'n': 1}
    elif shape == 'nested-dict':
        arg = FrozenMap([('outer', FrozenMap(inner_pairs)), ('n', 1)])
    before_pairs = list(inner_pairs)
    out = su.mask_dict_password(arg) if not p.get('mask') else \
        su.mask_dict_password(arg, secret=p['mask'])
    mask = p.get('mask', '***')
    ctx.check('C08-returns-new-dict', type(out) is dict and out is not arg)
    inner = out if shape == 'flat' else out['outer']
    if shape != 'flat':
        ctx.check('C08-nested-keys', set(out.keys()) == {'outer', 'n'} and
                  out['n'] == 1 and type(inner) is dict)
    ctx.check('C08-same-keys', len(inner) == 2 and sib in inner and
              any(k is K for k in inner))
    got = None
    for k, v in inner.items():
        if k is K:
            got = v
    ctx.check('C08-sibling', inner[sib] == 'bob')
    km = key_matches(K)
    if ctx.truth(km):
        ctx.goal('key-matched')
        ctx.check('C08-value-under-secret-key-masked',
                  isinstance(got, str) and got == mask)
    else:
        ctx.goal('key-not-matched')
        if vkind in ('str', 'plain'):
            ctx.check('C08-other-strings-through-mask_password',
                      got == (su.mask_password(V, secret=mask)))
            if vkind == 'str':
                ctx.check('C08-embedded-secret-masked',
                          got == cat('--password ', mask, ' x'))
        else:
            ctx.check('C08-other-values-untouched', got is V)
    # the argument is left unmodified
    ctx.check('C08-argument-unmodified',
              all(a is c and b is d for (a, b), (c, d) in
                  zip(inner_pairs, before_pairs)) and
              len(inner_pairs) == 2)
    return (got if isinstance(got, (str, SymStr)) else repr(got),)


def scen_maskdict_misc(ctx, M):
    """non-string keys are never matched; non-mapping arguments raise
    TypeError; the secret argument is honoured; lists are not recursed"""
    su = M.su
    v = ctx.str('v', 1, SZ.ALPHABET['bare'])
    sval = cat('token=', v)
    arg = {b'password': sval, ('token',): 5, 7: None, 'password': 9,
           'auth_token_x': [1], 'note': sval}
    snap = dict(arg)
    out = su.mask_dict_password(arg, secret='###')
    ctx.check('C08-keys', set(out.keys()) == set(snap.keys()))
    ctx.check('C08-bytes-key-not-matched', out[b'password'] == 'token=###')
    ctx.check('C08-tuple-key-untouched', out[('token',)] == 5)
    ctx.check('C08-int-key-untouched', out[7] is None)
    ctx.check('C08-nonstring-value-masked', out['password'] == '###')
    ctx.check('C08-list-value-masked', out['auth_token_x'] == '###')
    ctx.check('C08-plain-string-masked-text', out['note'] == 'token=###')
    ctx.check('C08-argument-unmodified',
              all(arg[k] is snap[k] for k in snap) and len(arg) == len(snap))
    for bad in (5, 'password', None, [('password', 'x')]):
        try:
            su.mask_dict_password(bad)
            r = 'returned'
        except TypeError:
            r = 'TypeError'
        except Exception as e:
            r = type(e).__name__
        ctx.check('C08-non-mapping-TypeError', r == 'TypeError')
    ctx.goal('misc')
    return (out['note'],)
