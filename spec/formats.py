"""Reference predicates for the image formats, written from the property
statements (C01-C03, C05, C07) and the public format layouts - not from the
code under test.  S is a stream handle (symx.run.SymStreamH/ConcStreamH):
S.N length, S.byte(i), S.be(off,n), S.le(off,n), S.has(off, literal).
All functions return python bools/ints or symbolic values; combine them with
AND/OR/NOT/ITE only."""
from symx.core import AND, OR, NOT, ITE

KiB = 1024


def ge(a, b):
    return a >= b


class Ref:
    name = ''
    bound = 512 * KiB        # C05 memory bound
    checks = ()

    def complete(self, S):
        raise NotImplementedError

    def signature(self, S):
        """C03: the format's signature is present in the content"""
        raise NotImplementedError

    def match(self, S):
        """format_match once the whole stream has been presented"""
        return self.signature(S)

    def size(self, S):
        return S.N

    def failing(self, S):
        """dict check name -> condition 'this check fails' (meaningful when
        complete and matching)"""
        return {}


class Raw(Ref):
    name = 'raw'
    checks = ('null',)

    def complete(self, S):
        return True

    def signature(self, S):
        return True

    def failing(self, S):
        return {'null': False}


class Qcow2(Ref):
    name = 'qcow2'
    checks = ('backing_file', 'data_file', 'unknown_features')

    def complete(self, S):
        return S.N >= 512

    def signature(self, S):
        return AND(S.N >= 512, S.has(0, b'QFI\xfb'))

    def size(self, S):
        return ITE(self.signature(S), S.be(24, 8), 0)

    def failing(self, S):
        ver = S.be(4, 4)
        feat = S.be(72, 8)            # 64-bit incompatible-feature word
        low = S.byte(79)
        unknown_bits = OR(feat >= 256, (low & 0xF0) != 0)   # any bit >= 4
        return {
            'backing_file': S.be(8, 8) != 0,
            'data_file': (low & 0x04) != 0,
            'unknown_features': OR(AND(ver != 2, ver != 3),
                                   AND(ver == 3, unknown_bits)),
        }


class Qed(Ref):
    name = 'qed'
    checks = ('banned',)

    def complete(self, S):
        return S.N >= 512

    def signature(self, S):
        return AND(S.N >= 512, S.has(0, b'QED\x00'))

    def failing(self, S):
        return {'banned': True}


class Vhd(Ref):
    name = 'vhd'
    checks = ('null',)

    def complete(self, S):
        return S.N >= 512

    def signature(self, S):
        return S.has(0, b'conectix')

    def size(self, S):
        return ITE(AND(S.N >= 512, self.signature(S)), S.be(40, 8), 0)

    def failing(self, S):
        return {'null': False}


class Vdi(Ref):
    name = 'vdi'
    checks = ('null',)

    def complete(self, S):
        return S.N >= 512

    def signature(self, S):
        return AND(S.N >= 512, S.le(0x40, 4) == 0xbeda107f)

    def size(self, S):
        return ITE(self.signature(S), S.le(0x170, 8), 0)

    def failing(self, S):
        return {'null': False}


class Iso(Ref):
    name = 'iso'
    checks = ('null',)

    def complete(self, S):
        return S.N >= 34 * KiB

    def signature(self, S):
        return AND(S.N >= 34 * KiB,
                   OR(S.has(32769, b'CD001'), S.has(32769, b'NSR02'),
                      S.has(32769, b'NSR03')))

    def size(self, S, block_size=None):
        bs = S.le(32896, 2) if block_size is None else block_size
        return ITE(AND(self.signature(S), S.byte(32768) == 1),
                   S.le(32848, 4) * bs, 0)

    def failing(self, S):
        return {'null': False}


class Gpt(Ref):
    name = 'gpt'
    checks = ('mbr',)

    def complete(self, S):
        return S.N >= 512

    def signature(self, S):
        fat = AND(S.byte(0x10) == 2, S.byte(0x15) == 0xF8)
        return AND(S.N >= 512, S.le(510, 2) == 0xAA55, NOT(fat))

    def failing(self, S):
        bad_boot = []
        nonempty = []
        ee = []
        ee_bad = []
        for i in range(4):
            b = 446 + 16 * i
            boot = S.byte(b)
            typ = S.byte(b + 4)
            bad_boot.append(AND(boot != 0x00, boot != 0x80))
            nonempty.append(typ != 0)
            ee.append(typ == 0xEE)
            chs_ok = AND(S.byte(b + 1) == 0, S.byte(b + 2) == 2,
                         S.byte(b + 3) == 0)
            lba_ok = S.le(b + 8, 4) == 1
            ee_bad.append(AND(typ == 0xEE, NOT(AND(chs_ok, lba_ok))))
        any_ee = OR(*ee)
        only_slot0 = AND(nonempty[0], NOT(nonempty[1]), NOT(nonempty[2]),
                         NOT(nonempty[3]))
        fail = OR(OR(*bad_boot), OR(*ee_bad),
                  AND(any_ee, NOT(only_slot0)),
                  NOT(OR(*nonempty)))
        return {'mbr': fail}


class Luks(Ref):
    name = 'luks'
    checks = ('version',)

    def complete(self, S):
        return S.N >= 592

    def signature(self, S):
        return S.has(0, b'LUKS\xba\xbe')

    def size(self, S):
        return S.N - 512 * S.be(104, 4)

    def failing(self, S):
        # version is a signed big-endian 16-bit field; only 1 is accepted
        return {'version': S.be(6, 2) != 1}


REFS = {r.name: r for r in (Raw(), Qcow2(), Qed(), Vhd(), Vdi(), Iso(),
                            Gpt(), Luks())}
