"""Translator validation: the LIA encodings in symx/symdt.py (SecFloat,
DyadicFloat) agree with the real timedelta.total_seconds() / float
comparisons on sampled concrete values.  Not a registered check; run with
.venv/bin/python tests/validate_secfloat.py"""
import sys, random, datetime
sys.path.insert(0,'/verif')
import z3
from symx import core, symdt
E = core.Engine(); core.set_engine(E); E._reset_path()
u = z3.Int('u'); w = z3.Int('w')
E.add(z3.And(u > -(1<<38)*10**6, u < (1<<38)*10**6))
f = symdt.SecFloat(core.wrapint(u))
tr = core.toint(f.exact_trunc())
ops = {'lt': (f < core.wrapint(w)), 'le': (f <= core.wrapint(w)), 'eq': (f == core.wrapint(w)), 'ge': (f >= core.wrapint(w))}
random.seed(1); bad = 0; n = 0
def ev(t, uu, ww):
    return z3.simplify(z3.substitute(t, (u, z3.IntVal(uu)), (w, z3.IntVal(ww))))
for i in range(4000):
    e = random.choice([10, 30, 33, 34, 35, 36, 37])
    q = random.randrange(1 << e, 1 << (e + 1))
    fr = random.choice([0, 1, 499999, 500000, 500001, 999999, 999998, random.randrange(10**6)])
    uu = (q * 10**6 + fr) * random.choice([1, -1])
    r = datetime.timedelta(microseconds=uu).total_seconds()
    n += 1
    if ev(tr, uu, 0).as_long() != int(r):
        bad += 1; print('trunc', uu, ev(tr, uu, 0), int(r))
    for ww in (int(r), int(r) + 1, int(r) - 1, round(r), uu // 10**6):
        import operator
        for name, t in ops.items():
            got = z3.is_true(ev(core.tobool(t) if not isinstance(t, core.SymBool) else t.t, uu, ww))
            want = getattr(operator, name)(r, ww)
            if got != want:
                bad += 1; print(name, uu, ww, got, want)
print('n', n, 'bad', bad)
# SecFloat vs DyadicFloat
n = z3.Int('n')
import operator
bad = 0; cnt = 0
for k in (1, 16, 32, 63):
    d = symdt.DyadicFloat(core.wrapint(n), k, 6)
    terms = {'lt': f < d, 'le': f <= d, 'ge': f >= d, 'gt': f > d, 'rle': d <= f, 'rlt': d < f}
    for i in range(400):
        e = random.choice([5, 20, 33, 34, 35, 36, 37])
        q = random.randrange(1 << e, 1 << (e + 1)) * random.choice([1, -1])
        nn = q + random.choice([-1, 0, 0, 0, 1])
        wus = nn * 10**6 + k * 15625
        uu = wus + random.choice([-2, -1, 0, 0, 1, 2, 7, -40000, 40000])
        r = datetime.timedelta(microseconds=uu).total_seconds()
        wv = nn + k / 64.0
        for name, t in terms.items():
            got = z3.is_true(z3.simplify(z3.substitute(t.t, (u, z3.IntVal(uu)), (n, z3.IntVal(nn)))))
            want = {'lt': r < wv, 'le': r <= wv, 'ge': r >= wv, 'gt': r > wv, 'rle': wv <= r, 'rlt': wv < r}[name]
            cnt += 1
            if got != want:
                bad += 1; print(name, uu, nn, k, got, want)
print('dyadic n', cnt, 'bad', bad)
# fromtimestamp(total_seconds) rounding
rm = core.toint(f.round_micros())
bad = 0; cnt = 0
E0 = datetime.datetime(1970, 1, 1, tzinfo=datetime.timezone.utc)
for i in range(6000):
    e = random.choice([0, 10, 25, 31, 32, 33, 34, 35, 36, 37])
    q = random.randrange(1 << e, 1 << (e + 1))
    if q > 253000000000:
        q = 253000000000 - random.randrange(10**6)
    fr = random.choice([0, 1, 2, 499999, 500000, 500001, 999999, 999998,
                        random.randrange(10**6), random.randrange(10**6)])
    uu = q * 10**6 + fr
    if random.random() < 0.3 and uu < 62135596800 * 10**6:
        uu = -uu
    r = datetime.timedelta(microseconds=uu).total_seconds()
    d = datetime.datetime.fromtimestamp(r, tz=datetime.timezone.utc) - E0
    want = (d.days * 86400 + d.seconds) * 10**6 + d.microseconds
    got = ev(rm, uu, 0).as_long()
    cnt += 1
    if got != want:
        bad += 1; print('fromts', uu, got, want)
print('fromtimestamp n', cnt, 'bad', bad)
