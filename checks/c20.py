"""C20 - file helpers agree with whole-file semantics and are idempotent."""
import os
import sys
sys.path.insert(0, os.path.dirname(os.path.dirname(os.path.abspath(__file__))))
from checks import common, files          # noqa: E402
from symx import run as R                 # noqa: E402


def mk(name, f, goals):
    hh = R.Harness(name, f, files.load_sym, files.load_real)
    hh.required_goals = goals
    return hh


H = {'errno': mk('errno', files.scen_errno, ('fails', 'ok')),
     'last-bytes': mk('last-bytes', files.scen_last_bytes,
                      ('larger-than-file', 'within-file', 'other-error')),
     'checksum': mk('checksum', files.scen_checksum,
                    ('updates-0', 'updates-1', 'updates-2')),
     'tempfile': mk('tempfile', files.scen_tempfile, ('done',))}


def build_jobs(tier, seed):
    J = common.Job
    return [J(H['errno'], {}), J(H['last-bytes'], {}),
            J(H['checksum'], dict(reads=8 if tier == 'quick' else 32)),
            J(H['checksum'], dict(reads=4 if tier == 'quick' else 16,
                                  chunk_choices=[1, 7, 4096, 65536])),
            J(H['tempfile'], {})]


def describe(tier):
    return {
        'ensure_tree / delete_if_exists': 'the underlying makedirs / remove '
        'call succeeds or raises OSError with a symbolic errno in 1..200; '
        'isdir symbolic: re-raise (of the same exception object) decided '
        'for every errno',
        'last_bytes': 'file of symbolic size up to 2^40 with uninterpreted '
        'contents, num symbolic up to 2^41; seek(-num, END) raises EINVAL '
        'iff num > size (POSIX), or another symbolic errno',
        'compute_file_checksum': 'symbolic size and chunk size with size <= '
        '%d x chunk size (at most that many non-empty reads); the '
        'concatenation of the hasher updates is structurally the whole '
        'content; the file stub offers read() and readinto() (mutable '
        'buffer model: prefix replaced, stale tail kept)' %
        (8 if tier == 'quick' else 32),
        'write_to_tempfile': 'call protocol against recording stubs (with / '
        'without directory, write failing or not)',
        'outside': 'the real filesystem, mkstemp uniqueness, hashlib '
        '(streaming contract assumed), remove_path_on_error (C09)',
    }


ASSUME = ['os / tempfile / hashlib / open are contract stubs; the same '
          'stubs are patched into the real module for the concrete replay',
          'hashlib streaming contract: digest(update(a); update(b)) == '
          'digest(a + b)']

if __name__ == '__main__':
    sys.exit(common.main('C20', build_jobs, H, ASSUME, describe))
