"""Harnesses over oslo_utils.encodeutils and strutils.to_slug (C16).
Codecs are uninterpreted: texts and byte strings are opaque objects, encode
and decode are uninterpreted functions with dec(enc(t)) = t and symbolic
failure bits."""
import os
import sys
import unicodedata as _ud

VERIF = os.path.dirname(os.path.dirname(os.path.abspath(__file__)))
sys.path.insert(0, VERIF)

from symx import core, env, h, run as R, sstr    # noqa: E402
from symx.core import AND, OR, NOT, ITE            # noqa: E402
from symx.sstr import SymStr, SymChar              # noqa: E402
from checks.strs import cat, contains, _FakeUrllib  # noqa: E402

EU = 'oslo_utils.encodeutils'
SU = 'oslo_utils.strutils'
CODECS = ['utf-8', 'latin-1', 'utf-16', 'ascii']


class Mods:
    pass


def canon(name):
    """canonical (lower-case) codec name of a str / SymStr"""
    for c in CODECS:
        if isinstance(name, str):
            if name.lower() == c:
                return c
        elif len(name) == len(c) and bool(name.lower() == c):
            return c
    raise LookupError('unknown encoding')


class World:
    ctx = None
    calls = None


class OText:
    """opaque text"""
    def __init__(self, tag):
        self.tag = tag

    def encode(self, enc='utf-8', errors='strict'):
        c = canon(enc)
        World.calls.append(('encode', self.tag, c, errors))
        if World.ctx.truth(World.ctx.bool('unrepresentable_%s_%s_%d' % (
                _t(self.tag), c, len(World.calls)))) and errors == 'strict':
            raise UnicodeEncodeError(c, 'x', 0, 1, 'stub')
        return OBytes(('enc', c, self.tag, errors))


class OBytes:
    """opaque byte string"""
    def __init__(self, tag, empty=False):
        self.tag = tag
        self.empty = empty

    def __bool__(self):
        return not self.empty

    def isascii(self):
        # content is opaque: either answer is possible
        return World.ctx.truth(World.ctx.bool('isascii_%s' % _t(self.tag)))

    def decode(self, enc='utf-8', errors='strict'):
        c = canon(enc)
        World.calls.append(('decode', self.tag, c, errors))
        if isinstance(self.tag, tuple) and self.tag[0] == 'enc' and \
                self.tag[1] == c:
            return OText(self.tag[2]) if not isinstance(
                self.tag[2], OText) else self.tag[2]
        if World.ctx.truth(World.ctx.bool('undecodable_%s_%s' % (
                _t(self.tag), c))) and errors == 'strict':
            raise UnicodeDecodeError(c, b'x', 0, 1, 'stub')
        return OText(('dec', c, self.tag))


def _t(tag):
    return str(tag).replace(' ', '').replace("'", '')[:40]


def load_sym():
    ld = env.Loader(env={'urllib': _FakeUrllib(), 'unicodedata': FakeUD},
                    sym=[EU])
    m = Mods()
    m.eu = ld.load(EU)
    m.su = ld.load(SU)
    m.sha = ld.sha
    return m


def load_real():
    m = Mods()
    m.eu = env.import_real(EU)
    m.su = env.import_real(SU)
    return m


class typed:
    """make the opaque objects count as str / bytes for isinstance() in the
    module under test (symbolic: shim proxies; concrete: module-level
    isinstance override)"""
    def __init__(self, ctx, M):
        self.ctx, self.M = ctx, M

    def __enter__(self):
        World.ctx = self.ctx
        World.calls = []
        if self.ctx.sym:
            self.s = (env.SHIMS['str'].proxies, env.SHIMS['bytes'].proxies)
            env.SHIMS['str'].proxies += (OText,)
            env.SHIMS['bytes'].proxies += (OBytes,)
        else:
            import builtins

            def isi(o, t):
                ts = t if isinstance(t, tuple) else (t,)
                if isinstance(o, OText) and str in ts:
                    return True
                if isinstance(o, OBytes) and bytes in ts:
                    return True
                return builtins.isinstance(o, t)
            self.M.eu.isinstance = isi
        return self

    def __exit__(self, *a):
        if self.ctx.sym:
            env.SHIMS['str'].proxies, env.SHIMS['bytes'].proxies = self.s
        else:
            del self.M.eu.isinstance
        return False


def sym_case(ctx, name, tag):
    if ctx.sym:
        chars = []
        for i, ch in enumerate(name):
            if ch.isalpha():
                chars.append(SymChar.fresh('%s_%d' % (tag, i),
                                           {ord(ch), ord(ch.upper())}))
            else:
                chars.append(ord(ch))
        s = SymStr(chars)
        ctx.reg.append((tag, 'str', s))
        return s
    return ctx.i[tag]


def call(f, *a, **k):
    try:
        return ('ret', f(*a, **k))
    except Exception as e:
        return ('exc', type(e).__name__)


def scen_codec(ctx, M):
    eu = M.eu
    e1 = ctx.choice('enc', CODECS)
    e2 = ctx.choice('incoming', CODECS)
    errors = ctx.choice('errors', ['strict', 'ignore', 'replace'])
    enc = sym_case(ctx, e1, 'encname')
    inc = sym_case(ctx, e2, 'incname')
    t = OText('t')
    with typed(ctx, M):
        # str: returned unchanged by safe_decode, encoded by safe_encode
        ctx.check('C16-decode-str-unchanged',
                  eu.safe_decode(t, incoming=inc) is t)
        World.calls = []
        r = call(eu.safe_encode, t, encoding=enc, errors=errors)
        if r[0] == 'ret':
            b = r[1]
            ctx.check('C16-encode-str', isinstance(b, OBytes) and
                      b.tag == ('enc', e1, 't', errors))
            back = call(eu.safe_decode, b, incoming=enc, errors=errors)
            ctx.check('C16-roundtrip', back[0] == 'ret' and
                      isinstance(back[1], OText) and back[1].tag == 't')
            ctx.goal('roundtrip')
        else:
            ctx.check('C16-encode-error-only-when-unrepresentable',
                      r[1] == 'UnicodeEncodeError' and errors == 'strict')
        # bytes: transcoded, or returned untouched when the codecs agree
        raw = OBytes('raw')
        World.calls = []
        r2 = call(eu.safe_encode, raw, incoming=inc, encoding=enc,
                  errors=errors)
        if e1 == e2:
            ctx.goal('same-codec')
            ctx.check('C16-bytes-untouched-when-codecs-agree',
                      r2 == ('ret', raw) and World.calls == [])
        elif r2[0] == 'ret':
            ctx.goal('transcoded')
            out = r2[1]
            ctx.check('C16-transcode', isinstance(out, OBytes) and
                      out.tag[0] == 'enc' and out.tag[1] == e1 and
                      out.tag[3] == errors)
            ctx.check('C16-transcode-calls', [c[0] for c in World.calls]
                      in (['decode', 'encode'],
                          ['decode', 'decode', 'encode']))
        # decoding bytes: given codec, UTF-8 fallback exactly on failure
        World.calls = []
        r3 = call(eu.safe_decode, raw, incoming=inc, errors=errors)
        names = [c[2] for c in World.calls if c[0] == 'decode']
        if len(names) == 1:
            ctx.check('C16-decode-with-incoming', names == [e2] and
                      r3[0] == 'ret')
        else:
            ctx.goal('fallback')
            ctx.check('C16-decode-fallback-utf8', names == [e2, 'utf-8'])
        # empty bytes are returned as they are
        emp = OBytes('empty', empty=True)
        ctx.check('C16-empty-bytes', eu.safe_encode(
            emp, incoming=inc, encoding=enc) is emp)
        # to_utf8
        World.calls = []
        u = call(eu.to_utf8, t)
        ctx.check('C16-to-utf8-str', (u[0] == 'ret' and
                  u[1].tag[:3] == ('enc', 'utf-8', 't')) or
                  u == ('exc', 'UnicodeEncodeError'))
        ctx.check('C16-to-utf8-bytes', eu.to_utf8(raw) is raw)
        for bad in (5, None, ['x']):
            ctx.check('C16-typeerror',
                      call(eu.safe_decode, bad) == ('exc', 'TypeError') and
                      call(eu.safe_encode, bad) == ('exc', 'TypeError') and
                      call(eu.to_utf8, bad) == ('exc', 'TypeError'))
    return ()


# ---------------------------------------------------------------- to_slug
def _fold(c):
    """ASCII fold of one code point: NFKD, non-ASCII dropped"""
    return ''.join(ch for ch in _ud.normalize('NFKD', chr(c))
                   if ord(ch) < 128)


FOLD = {c: _fold(c) for c in sstr.ALPHA}
SINGLE = {c: ord(f) for c, f in FOLD.items() if len(f) == 1}
EMPTY = frozenset(c for c, f in FOLD.items() if f == '')
MULTI = {c: f for c, f in FOLD.items() if len(f) > 1}
SINGLE_MAP = sstr.Table((c, SINGLE.get(c)) for c in sstr.ALPHA)


class Folded:
    """result of unicodedata.normalize('NFKD', s): only
    .encode('ascii', 'ignore').decode('ascii') is supported"""
    def __init__(self, chars):
        self.chars = chars

    def encode(self, enc, errors='strict'):
        if (enc, errors) != ('ascii', 'ignore'):
            raise core.Unsupported('Folded.encode(%r, %r)' % (enc, errors))
        return self

    def decode(self, enc):
        return SymStr(self.chars)


class FakeUD:
    @staticmethod
    def normalize(form, s):
        if form != 'NFKD':
            raise core.Unsupported('normalize(%r)' % form)
        if isinstance(s, str):
            s = sstr.tosym(s)
        out = []
        for ch in s.c:
            if isinstance(ch, int):
                out.extend(ord(x) for x in (
                    FOLD[ch] if ch in FOLD else _fold(ch)))
                continue
            if ch.in_set(frozenset(SINGLE)):
                out.append(ch.mapped(SINGLE_MAP))
            elif ch.in_set(EMPTY):
                pass
            else:
                for c, f in sorted(MULTI.items()):
                    if ch.in_set(frozenset([c])):
                        out.extend(ord(x) for x in f)
                        break
        return Folded(out)


SLUG_OK = frozenset(b'abcdefghijklmnopqrstuvwxyz0123456789_-')


def scen_slug(ctx, M):
    su = M.su
    n = ctx.choice('n', list(range(0, ctx.p['n'] + 1)))
    s = ctx.str('s', n)
    out = su.to_slug(s)
    if ctx.sym:
        bad = False
        for ch in out.c:
            if isinstance(ch, int):
                bad = bad or ch not in SLUG_OK
            else:
                bad = OR(bad, NOT(core.wrapbool(core.set_term(
                    ch.term(), SLUG_OK))))
        ctx.check('C16-slug-alphabet', NOT(bad))
    else:
        ctx.check('C16-slug-alphabet', all(ord(c) in SLUG_OK for c in out))
    ctx.check('C16-slug-single-hyphens', NOT(contains(out, '--')))
    ctx.check('C16-slug-idempotent', su.to_slug(out) == out)
    ctx.goal('done')
    return (out,)
