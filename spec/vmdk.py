"""Reference reading of a VMDK descriptor, written from the C02 statement:
the descriptor must name createType monolithicSparse or streamOptimized
(case-insensitively), every line must be blank, a comment, a ddb line, a
single-word header field ("word=...") or an extent line (first token rw /
rdonly / noaccess), there must be at least one extent and no extent may
name a path (contain '/').

Works on real str and on symx SymStr alike (only lower/split/strip/find/
startswith/in are used)."""

ACCESS = ('rw', 'rdonly', 'noaccess')
SUPPORTED = ('monolithicsparse', 'streamoptimized')


def create_type(text):
    """-> (value or None, well_defined).  value None = no createType."""
    low = text.lower()
    key = 'createtype="'
    i = low.find(key)
    if i < 0:
        return None, True
    start = i + len(key)
    j = low.find('"', start)
    if j < 0:
        return None, False            # no closing quote: not specified
    if j - start >= 64:
        return None, True             # over-long value: treated as absent
    return low[start:j], True


def line_class(line):
    """'skip' | 'ddb' | 'field' | 'extent' | 'bad' for a stripped, lowered
    line"""
    if not line or line.startswith('#'):
        return 'skip'
    if line.startswith('ddb'):
        return 'ddb'
    eq = line.find('=')
    if eq >= 0 and line[:eq].find(' ') < 0:
        return 'field'
    first = line.split(' ')[0]
    for a in ACCESS:
        if first == a:
            return 'extent'
    return 'bad'


def descriptor_safe(text):
    """-> (safe: bool, well_defined: bool)"""
    if not text:
        return False, True
    ct, ok = create_type(text)
    if not ok:
        return False, False
    supported = False
    if ct is not None:
        for s in SUPPORTED:
            if ct == s:
                supported = True
    if not supported:
        return False, True
    extents = 0
    for raw in text.lower().split('\n'):
        line = raw.strip()
        c = line_class(line)
        if c == 'bad':
            return False, True
        if c == 'extent':
            if line.find('/') >= 0:
                return False, True
            extents += 1
    return extents > 0, True
