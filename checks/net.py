"""Harnesses over oslo_utils.netutils (C11, C15).  netaddr is replaced by
contract stubs (symbolically and, for the concrete replay, by mock.patch on
the real module)."""
import os
import sys

VERIF = os.path.dirname(os.path.dirname(os.path.abspath(__file__)))
sys.path.insert(0, VERIF)

from symx import core, env, h, run as R, sstr    # noqa: E402
from symx.core import AND, OR, NOT, ITE            # noqa: E402
from symx.sstr import SymStr                       # noqa: E402
from checks.strs import cat, py_int_value, contains  # noqa: E402

NU = 'oslo_utils.netutils'
INET_ATON, INET_PTON = 1, 2


class Mods:
    pass


class AddrFormatError(Exception):
    pass


def _is(s, lit):
    """s == lit for str/SymStr, forking when symbolic"""
    if isinstance(s, str):
        return s == lit
    if not isinstance(s, SymStr) or len(s) != len(lit):
        return False
    return bool(s == lit)


class Stub:
    """contract stub for the parts of netaddr that netutils uses.
    Placeholders: 'A4' a presentation-format IPv4 address, 'L4' one that is
    only valid in inet_aton form, 'A6' an IPv6 address, 'N4'/'N6' network
    base addresses; prefixes '8' and '88' are the valid prefix lengths.
    Everything else is malformed; for malformed input the stub answers
    False or raises AddrFormatError or ValueError (embedded NUL) as a
    symbolic choice."""
    ctx = None
    AddrFormatError = AddrFormatError
    mac_unix_expanded = object()
    A4, L4, A6 = '10.0.0.1', '10.1', 'fe80::1'
    # the longest textual form of an IPv6 address (embedded IPv4 tail)
    A6L = 'abcd:ef01:2345:6789:abcd:ef01:192.168.254.254'
    net = None          # set by EUI-64 scenarios: dict(first=, ip=, v6=)
    mac = None          # symbolic 48-bit value of the placeholder MAC

    class EUI:
        def __init__(self, v, dialect=None):
            if isinstance(v, (str, SymStr)):
                if not _is(v, 'MAC'):
                    raise AddrFormatError('bad mac')
                self.value = Stub.mac
            else:
                self.value = v
            self.dialect = dialect

        def eui64(self):
            m = self.value
            hi, lo = m >> 24, m & 0xffffff
            return Stub.EUI((hi << 40) + (0xfffe << 24) + lo)

        def __symint__(self):
            return self.value

        def __int__(self):
            return self.value

    class IPAddress:
        def __init__(self, v):
            self.value = v

        def __symint__(self):
            return self.value

        def __int__(self):
            return self.value

    class core_:
        INET_ATON = INET_ATON
        INET_PTON = INET_PTON
        AddrFormatError = AddrFormatError
    core = core_

    @classmethod
    def _malformed(cls, tag):
        k = cls.ctx.choice('fault_' + tag, ['false', 'afe', 'valueerror'])
        if k == 'afe':
            raise AddrFormatError('malformed')
        if k == 'valueerror':
            raise ValueError('embedded null character')
        return False

    @classmethod
    def valid_ipv4(cls, addr, flags=0):
        if not isinstance(addr, (str, SymStr)):
            raise TypeError('str expected')
        if _is(addr, cls.A4):
            return True
        if flags == INET_ATON and _is(addr, cls.L4):
            return True
        return cls._malformed('v4')

    @classmethod
    def valid_ipv6(cls, addr, flags=0):
        if not isinstance(addr, (str, SymStr)):
            raise TypeError('str expected')
        if _is(addr, cls.A6) or _is(addr, cls.A6L):
            return True
        return cls._malformed('v6')

    class IPNetwork:
        def __init__(self, addr, version=None):
            if not isinstance(addr, (str, SymStr)):
                raise TypeError('str expected')
            if Stub.net is not None:
                if _is(addr, 'PFX'):
                    self.first = Stub.net['first']
                    self.ip = Stub.IPAddress(Stub.net['ip'])
                    return
                raise AddrFormatError('invalid IPNetwork')
            n = len(addr)
            base = addr[:2]
            tail = addr[2:]
            slashes = tail.count('/')
            if slashes >= 2:
                raise ValueError('IPAddress() does not support netmasks')
            isn4 = _is(base, 'N4')
            isn6 = (not isn4) and _is(base, 'N6')
            if not (isn4 or isn6):
                k = Stub.ctx.choice('fault_net', ['afe', 'valueerror'])
                if k == 'afe':
                    raise AddrFormatError('invalid IPNetwork')
                raise ValueError('embedded null character')
            if version == 6 and not isn6:
                raise AddrFormatError('base address is not IPv6')
            if len(tail) == 0:
                self.cidr = ('net', 'host')
                return
            if not _is(tail[:1], '/'):
                raise AddrFormatError('invalid IPNetwork')
            pfx = tail[1:]
            if _is(pfx, '8') or _is(pfx, '88'):
                self.cidr = ('net', 'pfx')
                return
            raise AddrFormatError('invalid prefix')


def load_sym():
    ld = env.Loader(env={'netaddr': Stub})
    m = Mods()
    m.nu = ld.load(NU)
    m.sha = ld.sha
    return m


def load_real():
    m = Mods()
    m.nu = env.import_real(NU)
    return m


class patched:
    """in concrete mode: patch the real module's netaddr with the stub"""
    def __init__(self, ctx, M):
        self.ctx, self.M = ctx, M

    def __enter__(self):
        Stub.ctx = self.ctx
        if not self.ctx.sym:
            self.saved = self.M.nu.netaddr
            self.M.nu.netaddr = Stub
            self.s2 = (self.M.nu.INET_ATON, self.M.nu.INET_PTON)
            self.M.nu.INET_ATON, self.M.nu.INET_PTON = INET_ATON, INET_PTON
        return self

    def __exit__(self, *a):
        if not self.ctx.sym:
            self.M.nu.netaddr = self.saved
            self.M.nu.INET_ATON, self.M.nu.INET_PTON = self.s2
        return False


def call(f, *a, **k):
    try:
        return ('ret', f(*a, **k))
    except Exception as e:
        return ('exc', type(e).__name__)


def truthy(ctx, r):
    if r[0] != 'ret':
        return None
    v = r[1]
    if isinstance(v, (bool, core.SymBool)):
        return ctx.truth(v)
    return bool(v)


# ---------------------------------------------------------------- ints
def scen_intrange(ctx, M):
    nu = M.nu
    kind = ctx.p['kind']
    if kind == 'int':
        v = ctx.int('v')
        acc, val = True, v
    else:
        n = ctx.choice('n', list(range(0, ctx.p['n'] + 1)))
        from checks.strs import INTCHARS
        v = ctx.str('s', n, INTCHARS)
        acc, val = py_int_value(v)
    for fn, hi in ((nu.is_valid_port, 65535), (nu.is_valid_icmp_type, 255),
                   (nu.is_valid_icmp_code, 255)):
        r = call(fn, v)
        ctx.check('C11-%s-never-raises' % fn.__name__, r[0] == 'ret')
        got = truthy(ctx, r)
        ctx.check('C11-%s' % fn.__name__,
                  h.veq(got, AND(acc, val >= 0, val <= hi)))
    ctx.check('C11-icmp-code-none', nu.is_valid_icmp_code(None) is True)
    ctx.check('C11-icmp-type-none', nu.is_valid_icmp_type(None) is False)
    ctx.goal('done')
    return ()


# ---------------------------------------------------------------- mac
def mac_ref(s):
    """six colon separated pairs of hex digits (any case), nothing else"""
    HEX = frozenset(b'0123456789abcdefABCDEF')
    if isinstance(s, str):
        import re
        return bool(re.fullmatch(r'[0-9a-fA-F]{2}(:[0-9a-fA-F]{2}){5}', s))
    if len(s) != 17:
        return False
    import z3
    conj = []
    for i, ch in enumerate(s.c):
        want = frozenset(b':') if i % 3 == 2 else HEX
        if isinstance(ch, int):
            if ch not in want:
                return False
        else:
            conj.append(core.set_term(ch.term(), want))
    return core.wrapbool(z3.And(*conj)) if conj else True


def scen_mac(ctx, M):
    nu = M.nu
    n = ctx.choice('n', ctx.p['lengths'])
    dom = frozenset(b'09afAFgG:-\n. _[`@')
    s = ctx.str('s', n, dom)
    r = call(nu.is_valid_mac, s)
    ctx.check('C11-mac-never-raises', r[0] == 'ret')
    ctx.check('C11-mac', h.veq(truthy(ctx, r), mac_ref(s)))
    for bad in (None, 5, b'aa:bb:cc:dd:ee:ff'):
        rr = call(nu.is_valid_mac, bad)
        ctx.check('C11-mac-nonstring', rr[0] == 'ret' and not rr[1])
    ctx.goal('done')
    return ()


# ---------------------------------------------------------------- ipv6 scope
def scen_scope(ctx, M):
    nu = M.nu
    L = ctx.choice('L', list(range(0, ctx.p['maxtail'] + 1)))
    tail = ctx.str('tail', L, frozenset(b'%a1'))
    base = ctx.choice('base', [Stub.A6, 'fe80::x', Stub.A6L])
    text = cat(base, tail)
    if ctx.sym:
        core.ENG.allow_tokens = True       # "[%s]" % address
    with patched(ctx, M):
        r = call(nu.is_valid_ipv6, text)
        r2 = call(nu.is_valid_ip, text)
        r3 = call(nu.escape_ipv6, text)
    if ctx.sym and r3[0] == 'ret' and isinstance(r3[1], str):
        r3 = ('ret', sstr.lift(r3[1]))
    ctx.check('C11-ipv6-never-raises', r[0] == 'ret' and r2[0] == 'ret')
    # reference: no scope and the text is the address, or address % scope
    # with 1..15 scope characters (the scope follows the LAST %)
    if base in (Stub.A6, Stub.A6L):
        alts = [L == 0]
        for k in range(1, min(L, 16)):
            # tail = '%' + scope, scope has k chars without further '%'...
            pass
        if L >= 1:
            sc_len = L - 1
            first_pct = tail[0] == '%'
            rest_no_pct = NOT(contains(tail[1:], '%')) if L > 1 else True
            alts.append(AND(first_pct, rest_no_pct, sc_len >= 1,
                            sc_len <= 15))
        want = OR(*alts)
    else:
        want = False
    ctx.check('C11-ipv6-scope', h.veq(truthy(ctx, r), want))
    ctx.check('C11-ip-agrees', h.veq(truthy(ctx, r2), want))
    if r3[0] == 'ret':
        esc = r3[1]
        ctx.check('C15-escape-ipv6', ITE(want, esc == cat('[', text, ']'),
                                         esc == text)
                  if not isinstance(want, bool) else
                  (esc == (cat('[', text, ']') if want else text)))
    ctx.goal('done')
    return ()


def scen_ipv4(ctx, M):
    nu = M.nu
    text = ctx.choice('text', [Stub.A4, Stub.L4, 'X', '', Stub.A6])
    strict = ctx.truth(ctx.bool('strict'))
    with patched(ctx, M):
        r = call(nu.is_valid_ipv4, text, strict)
        r2 = call(nu.is_valid_ip, text)
    ctx.check('C11-ipv4-never-raises', r[0] == 'ret' and r2[0] == 'ret')
    ctx.check('C11-ipv4', truthy(ctx, r) == (
        text == Stub.A4 or (not strict and text == Stub.L4)))
    ctx.check('C11-ip', truthy(ctx, r2) == (
        text in (Stub.A4, Stub.L4, Stub.A6)))
    ctx.goal('done')
    return ()


# ---------------------------------------------------------------- cidr
def scen_cidr(ctx, M):
    nu = M.nu
    base = ctx.choice('base', ['N4', 'N6', 'XX'])
    L = ctx.choice('L', list(range(0, ctx.p['maxtail'] + 1)))
    tail = ctx.str('tail', L, frozenset(b'/8x'))
    text = cat(base, tail)
    with patched(ctx, M):
        r = call(nu.is_valid_cidr, text)
        r6 = call(nu.is_valid_ipv6_cidr, text)
    ctx.check('C11-cidr-never-raises', r[0] == 'ret' and r6[0] == 'ret')
    good_pfx = False
    if L in (2, 3):
        good_pfx = AND(tail[0] == '/', tail[1:] == ('8' * (L - 1)))
    want = AND(base in ('N4', 'N6'), good_pfx)
    ctx.check('C11-cidr', h.veq(truthy(ctx, r), want))
    # known finding K1: a bare IPv6 address (missing prefix) is accepted by
    # is_valid_ipv6_cidr (pinned by the existing test-suite)
    k1 = [('K1', base == 'N6' and L == 0)]
    ctx.check('C11-ipv6-cidr', h.veq(truthy(ctx, r6),
                                     AND(base == 'N6', good_pfx)),
              unless=k1)
    for bad in (None, 10):
        with patched(ctx, M):
            rr = call(nu.is_valid_cidr, bad)
            rr6 = call(nu.is_valid_ipv6_cidr, bad)
        ctx.check('C11-cidr-nonstring', rr == ('ret', False) and
                  rr6 == ('ret', False))
    ctx.goal('done')
    return ()


# ---------------------------------------------------------------- C15
def sym_bytes_int(ctx, name, n):
    """n-byte little-endian integer: symbolically a FieldInt over n byte
    variables, concretely an int; also returns the byte list (LE)"""
    if ctx.sym:
        bs = [ctx.byte_var('%s_%d' % (name, k)) for k in range(n)]
        for k, b in enumerate(bs):
            ctx.reg.append(('%s_%d' % (name, k), 'int', b))
        return core.FieldInt.of_bytes(bs), [core.SymInt(b) for b in bs]
    bs = [ctx.i['%s_%d' % (name, k)] for k in range(n)]
    return sum(b << (8 * k) for k, b in enumerate(bs)), bs


def le_value(bs):
    v = 0
    for k, b in enumerate(bs):
        v = v + b * (1 << (8 * k))
    return v


def flip_bit1(b):
    """byte with bit 1 (0x02) inverted, written arithmetically"""
    bit = (b // 2) % 2
    return b + 2 - 4 * bit


def scen_mac_by_ipv6(ctx, M):
    """get_mac_addr_by_ipv6 for every 128-bit address value"""
    nu = M.nu
    ip, b = sym_bytes_int(ctx, 'ip', 16)
    with patched(ctx, M):
        r = nu.get_mac_addr_by_ipv6(ip)     # IPAddress: integer semantics
    got = r.value
    # reference, byte-wise: interface id = low 8 bytes b7..b0; the MAC is
    # b7^0x02, b6, b5, b2, b1, b0 (the ff:fe bytes b4, b3 are dropped)
    want = le_value([b[0], b[1], b[2], b[5], b[6], flip_bit1(b[7])])
    ctx.check('C15-mac-by-ipv6', h.veq(got == want, True))
    ctx.goal('done')
    return ()


def scen_eui64(ctx, M):
    """get_ipv6_addr_by_EUI64 over a symbolic 48-bit MAC and a symbolic
    network (prefix length <= 64) with arbitrary host bits in the textual
    prefix; round trip through get_mac_addr_by_ipv6"""
    nu = M.nu
    mac, mb = sym_bytes_int(ctx, 'mac', 6)
    net, nb = sym_bytes_int(ctx, 'net', 8)
    host, hb = sym_bytes_int(ctx, 'host', 8)
    Stub.mac = mac
    Stub.net = dict(first=net << 64, ip=(net << 64) + host)
    try:
        with patched(ctx, M):
            r = call(nu.get_ipv6_addr_by_EUI64, 'PFX', 'MAC')
            bad_pfx = call(nu.get_ipv6_addr_by_EUI64, 'nonsense', 'MAC')
            bad_mac = call(nu.get_ipv6_addr_by_EUI64, 'PFX', 'nonsense')
            v4 = call(nu.get_ipv6_addr_by_EUI64, Stub.A4, 'MAC')
            nonstr = call(nu.get_ipv6_addr_by_EUI64, 5, 'MAC')
            back = None
            if r[0] == 'ret':
                back = nu.get_mac_addr_by_ipv6(r[1].value).value
    finally:
        Stub.net = None
    ctx.check('C15-eui64-returns', r[0] == 'ret')
    if r[0] == 'ret':
        # modified EUI-64: m5^0x02, m4, m3, ff, fe, m2, m1, m0
        iid = le_value([mb[0], mb[1], mb[2], 0xfe, 0xff, mb[3], mb[4],
                        flip_bit1(mb[5])])
        ctx.check('C15-eui64-address',
                  h.veq(r[1].value == le_value(nb) * (1 << 64) + iid, True))
        ctx.check('C15-eui64-roundtrip', h.veq(back == le_value(mb), True))
    ctx.check('C15-eui64-bad-prefix', bad_pfx == ('exc', 'ValueError'))
    ctx.check('C15-eui64-bad-mac', bad_mac == ('exc', 'ValueError'))
    ctx.check('C15-eui64-ipv4-prefix', v4 == ('exc', 'ValueError'))
    ctx.check('C15-eui64-nonstring', nonstr == ('exc', 'TypeError'))
    ctx.goal('done')
    return ()


def scen_hostport(ctx, M):
    """parse_host_port(escape_ipv6(host) + ':' + str(port)) == (host, port)
    and the default port when absent"""
    nu = M.nu
    fam = ctx.choice('family', ['name', 'v4', 'v6', 'v6scope'])
    if fam == 'name':
        n = ctx.choice('n', list(range(1, ctx.p['n'] + 1)))
        host = ctx.str('host', n, frozenset(b'az09.-_'))
    elif fam == 'v4':
        host = Stub.A4
    elif fam == 'v6':
        host = Stub.A6
    else:
        k = ctx.choice('k', [1, 2, 15])      # 15: the longest valid scope
        host = cat(Stub.A6, '%', ctx.str('scope', k, frozenset(b'e0')))
    port = ctx.int('port', 0, 65535)
    dflt = ctx.int('default', 0, 65535)
    if ctx.sym:
        core.ENG.allow_tokens = True
    with patched(ctx, M):
        esc = nu.escape_ipv6(host)
        if ctx.sym and isinstance(esc, str):
            esc = sstr.lift(esc)
        if ctx.sym:
            from symx.sstr import DecStr
            ptxt = SymStr([DecStr(core.toint(port))])
        else:
            ptxt = str(port)
        r = call(nu.parse_host_port, cat(esc, ':', ptxt))
        r2 = call(nu.parse_host_port, esc, dflt)
        r3 = call(nu.parse_host_port, esc)
    ctx.check('C15-hostport-returns', r[0] == 'ret' and r2[0] == 'ret')
    if r[0] == 'ret':
        ctx.check('C15-hostport-roundtrip',
                  AND(r[1][0] == host, r[1][1] == port))
    if r2[0] == 'ret':
        ctx.check('C15-hostport-default',
                  AND(r2[1][0] == host, r2[1][1] is not None and
                      r2[1][1] == dflt))
    ctx.check('C15-hostport-no-port',
              r3[0] == 'ret' and r3[1][1] is None and
              ctx.truth(r3[1][0] == host))
    ctx.check('C15-hostport-none', nu.parse_host_port(None) == (None, None))
    ctx.goal(fam)
    return ()
