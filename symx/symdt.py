"""Model of the datetime module for timeutils (C12): an instant is an
integer number of microseconds since 0001-01-01T00:00:00 (proleptic
Gregorian, as the stdlib), a fixed offset is an integer number of
microseconds strictly between -24h and +24h.  Objects built from calendar
fields keep their fields (no civil-date arithmetic is needed for the
marshalling round trip)."""
from . import core
from .core import SymInt, SymBool, wrapint, wrapbool, toint, Unsupported

US = 1000000
DAY_US = 86400 * US
MAX_US = 3652059 * DAY_US - 1          # 9999-12-31T23:59:59.999999
EPOCH_US = 719162 * DAY_US             # 1970-01-01 relative to 0001-01-01


def _num(x):
    return isinstance(x, (int, SymInt)) and not isinstance(x, bool)


class SecFloat(core.SymFloat):
    """timedelta.total_seconds(): CPython divides the integer microsecond
    count by 10**6 with int/int true division, which is correctly rounded,
    so the value is RNE(us / 10**6).  int() and comparisons with integers are
    encoded exactly in linear integer arithmetic (z3 does not decide the
    int -> binary64 conversion of values around 2**58):

    * |q| < 2**34: half an ulp is < 10**-6, the spacing of q = us / 10**6,
      and integers are representable, so trunc(RNE(q)) = trunc(q) and
      RNE(q) <op> w  <=>  q <op> w for every integer w;
    * 2**e <= |q| < 2**(e+1), e = 34..38: RNE(q) = m / 2**(52-e) with
      m = round-half-even(|us| * 2**(52-e) / 10**6).

    Other operations fall back to the floating-point term."""
    __slots__ = ('us',)

    def __init__(self, us):
        base = core.tofloat_obj(us) / 1000000.0
        core.SymFloat.__init__(self, base.t, base.iv)
        self.us = us

    def _parts(self):
        import z3
        E = core.eng()
        U = toint(self.us)
        a = z3.If(U >= 0, U, -U)
        if not E.valid(a < (1 << 39) * US):
            raise Unsupported('total_seconds beyond 2**39 s')
        sg = z3.If(U >= 0, 1, -1)
        big = []
        for e in range(33, 39):
            k = 52 - e
            n = a * (1 << k)
            fl, rem = n / US, n % US
            m = z3.If(2 * rem < US, fl, z3.If(
                2 * rem > US, fl + 1, z3.If(fl % 2 == 0, fl, fl + 1)))
            big.append((a < (1 << (e + 1)) * US, m, k))
        return U, a, sg, big

    def exact_trunc(self):
        import z3
        U, a, sg, big = self._parts()
        t = big[-1][1] / (1 << big[-1][2])
        for c, m, k in reversed(big[:-1]):
            t = z3.If(c, m / (1 << k), t)
        t = z3.If(a < (1 << 34) * US, a / US, t)
        return wrapint(sg * t)

    def round_micros(self):
        """the microsecond count datetime.fromtimestamp() derives from this
        float (C: modf, fractional part * 1e6, round half even).  Below
        2**33 s the float is within 2**-21 s < 0.5 us of us / 10**6, so the
        result is us itself; above, the fractional part is mf / 2**k with
        mf < 2**19, and mf * 10**6 < 2**53 is exact in binary64."""
        import z3
        U, a, sg, big = self._parts()

        def one(m, k):
            T, mf = m / (1 << k), m % (1 << k)
            n2 = mf * US
            fl, rem, half = n2 / (1 << k), n2 % (1 << k), 1 << (k - 1)
            r = z3.If(rem < half, fl, z3.If(rem > half, fl + 1, z3.If(
                fl % 2 == 0, fl, fl + 1)))
            return sg * (T * US + r)
        t = one(big[-1][1], big[-1][2])
        for c, m, k in reversed(big[:-1]):
            t = z3.If(c, one(m, k), t)
        return wrapint(z3.If(a < (1 << 33) * US, U, t))

    def exact_cmp(self, o, op):
        import z3
        if isinstance(o, bool) or isinstance(o, SymBool):
            o = toint(o)
        if isinstance(o, float) and o == o and abs(o) != float('inf') \
                and o == int(o):
            o = int(o)
        # the other side as W / 2**p (p = 0 for integers; a DyadicFloat is a
        # whole number of microseconds, so the < 2**34 argument still holds)
        if isinstance(o, DyadicFloat):
            W, p = toint(o.n) * (1 << o.p) + o.k, o.p
        elif isinstance(o, (int, SymInt, z3.ArithRef)):
            W, p = toint(o), 0
        else:
            return NotImplemented
        U, a, sg, big = self._parts()
        t = op(sg * big[-1][1] * (1 << p), W * (1 << big[-1][2]))
        for c, m, k in reversed(big[:-1]):
            t = z3.If(c, op(sg * m * (1 << p), W * (1 << k)), t)
        t = z3.If(a < (1 << 34) * US, op(U * (1 << p), W * US), t)
        return wrapbool(t)

    def __eq__(s, o):
        r = s.exact_cmp(o, lambda a, b: a == b)
        return core.SymFloat.__eq__(s, o) if r is NotImplemented else r

    def __ne__(s, o):
        r = s.exact_cmp(o, lambda a, b: a != b)
        return core.SymFloat.__ne__(s, o) if r is NotImplemented else r

    __hash__ = core.SymFloat.__hash__


class DyadicFloat(core.SymFloat):
    """the float n + k / 2**p for a symbolic integer n (|n| < 2**40) and
    concrete 0 < k < 2**p, p <= 6: exactly representable, and k / 2**p is a
    whole number of microseconds, so timedelta(seconds=<it>) is exact."""
    __slots__ = ('n', 'k', 'p')

    def __init__(self, n, k, p):
        import z3
        assert 0 < k < (1 << p) and p <= 6
        t = z3.fpAdd(core.RNE, core.tofloat(n), core.fpval(k / (1 << p)))
        core.SymFloat.__init__(self, t)
        self.n, self.k, self.p = n, k, p

    def micros(self):
        return self.n * US + (self.k * US) // (1 << self.p)

    def exact_trunc(self):
        import z3
        n = toint(self.n)
        return wrapint(z3.If(n >= 0, n, n + 1))

    def exact_cmp(self, o, op):
        import z3
        if isinstance(o, (bool, SymBool)):
            o = toint(o)
        if isinstance(o, SecFloat):
            return o.exact_cmp(self, lambda a, b: op(b, a))
        if not isinstance(o, (int, SymInt, z3.ArithRef)):
            return NotImplemented
        return wrapbool(op(toint(self.n) * (1 << self.p) + self.k,
                           toint(o) * (1 << self.p)))

    def __eq__(s, o):
        r = s.exact_cmp(o, lambda a, b: a == b)
        return core.SymFloat.__eq__(s, o) if r is NotImplemented else r

    def __ne__(s, o):
        r = s.exact_cmp(o, lambda a, b: a != b)
        return core.SymFloat.__ne__(s, o) if r is NotImplemented else r

    __hash__ = core.SymFloat.__hash__


class timedelta:
    def __init__(self, days=0, seconds=0, microseconds=0, milliseconds=0,
                 minutes=0, hours=0, weeks=0, _us=None):
        if _us is not None:
            self.us = _us
            return
        extra = 0
        if isinstance(seconds, DyadicFloat):
            extra, seconds = seconds.micros(), 0
        for v in (days, seconds, microseconds, milliseconds, minutes,
                  hours, weeks):
            if isinstance(v, (float, core.SymFloat)):
                raise Unsupported('fractional timedelta components')
        self.us = (((weeks * 7 + days) * 24 + hours) * 60 + minutes) * 60 \
            * US + seconds * US + milliseconds * 1000 + microseconds + extra

    days = property(lambda s: s.us // DAY_US)
    seconds = property(lambda s: (s.us % DAY_US) // US)
    microseconds = property(lambda s: s.us % US)

    def total_seconds(self):
        return SecFloat(self.us) if isinstance(self.us, SymInt) \
            else self.us / 1e6

    def _c(self, o, f):
        if not isinstance(o, timedelta):
            return NotImplemented
        return f(self.us, o.us)

    def __lt__(s, o):
        return s._c(o, lambda a, b: a < b)

    def __le__(s, o):
        return s._c(o, lambda a, b: a <= b)

    def __gt__(s, o):
        return s._c(o, lambda a, b: a > b)

    def __ge__(s, o):
        return s._c(o, lambda a, b: a >= b)

    def __eq__(s, o):
        if not isinstance(o, timedelta):
            return False
        return s.us == o.us

    def __ne__(s, o):
        if not isinstance(o, timedelta):
            return True
        return s.us != o.us

    __hash__ = None

    def __add__(s, o):
        if isinstance(o, timedelta):
            return timedelta(_us=s.us + o.us)
        return NotImplemented

    def __sub__(s, o):
        if isinstance(o, timedelta):
            return timedelta(_us=s.us - o.us)
        return NotImplemented

    def __neg__(s):
        return timedelta(_us=-s.us)

    def __bool__(s):
        r = s.us != 0
        return bool(r)


class tzinfo:
    pass


class timezone(tzinfo):
    def __init__(self, offset, name=None):
        if not isinstance(offset, timedelta):
            raise TypeError('offset must be a timedelta')
        self.off = offset
        self._name = name

    def utcoffset(self, dt):
        return self.off

    def tzname(self, dt):
        if self._name is not None:
            return self._name
        if isinstance(self.off.us, int) and self.off.us == 0:
            return 'UTC'
        raise Unsupported('tzname of a symbolic offset')

    def __bool__(self):
        return True


timezone.utc = timezone(timedelta(0))


def _range(v, lo, hi, what):
    ok = core.AND(v >= lo, v <= hi)
    if not bool(ok):
        raise core.deliberate(ValueError('%s is out of range' % what))


def _dim(y, m):
    """days in month (symbolic)"""
    leap = core.AND(y % 4 == 0, core.OR(y % 100 != 0, y % 400 == 0))
    feb = core.ITE(leap, 29, 28)
    r = 31
    for mm, d in ((11, 30), (9, 30), (6, 30), (4, 30)):
        r = core.ITE(m == mm, d, r)
    return core.ITE(m == 2, feb, r)


class datetime:
    """either instant-based (us) or field-based (fields dict)"""
    def __init__(self, year=None, month=None, day=None, hour=0, minute=0,
                 second=0, microsecond=0, tzinfo=None, _us=None):
        self.tzinfo = tzinfo
        if _us is not None:
            self.us = _us
            self.f = None
            return
        _range(year, 1, 9999, 'year')
        _range(month, 1, 12, 'month')
        _range(day, 1, _dim(year, month), 'day')
        _range(hour, 0, 23, 'hour')
        _range(minute, 0, 59, 'minute')
        _range(second, 0, 59, 'second')
        _range(microsecond, 0, 999999, 'microsecond')
        self.f = dict(year=year, month=month, day=day, hour=hour,
                      minute=minute, second=second, microsecond=microsecond)
        self.us = None
        if all(isinstance(v, int) for v in self.f.values()):
            import datetime as _rd
            d = _rd.datetime(year, month, day, hour, minute, second,
                             microsecond) - _rd.datetime(1, 1, 1)
            self.us = (d.days * 86400 + d.seconds) * US + d.microseconds

    @classmethod
    def now(cls, tz=None):
        raise Unsupported('datetime.now(): the real clock is not modelled')

    def _need_us(self):
        if self.us is None:
            raise Unsupported('instant of a field-built datetime')
        return self.us

    def timestamp(self):
        if self.tzinfo is None:
            raise Unsupported('timestamp() of a naive datetime (local zone)')
        us = self._need_us() - self.utcoffset().us - EPOCH_US
        return SecFloat(us) if isinstance(us, SymInt) else us / US

    @classmethod
    def fromtimestamp(cls, t, tz=None):
        if tz is None:
            raise Unsupported('fromtimestamp() into the local zone')
        if isinstance(t, SecFloat):
            us = t.round_micros()
        elif isinstance(t, DyadicFloat):
            us = t.micros()
        elif isinstance(t, (int, SymInt)) and not isinstance(t, bool):
            us = t * US
        else:
            raise Unsupported('fromtimestamp(%s)' % type(t).__name__)
        r = cls(_us=0, tzinfo=tz)
        r.us = r._chk(us + EPOCH_US + tz.utcoffset(None).us)
        return r

    def _field(self, n):
        if self.f is None:
            if n == 'microsecond':
                return self.us % US
            raise Unsupported('calendar field of an instant-built datetime')
        return self.f[n]

    year = property(lambda s: s._field('year'))
    month = property(lambda s: s._field('month'))
    day = property(lambda s: s._field('day'))
    hour = property(lambda s: s._field('hour'))
    minute = property(lambda s: s._field('minute'))
    second = property(lambda s: s._field('second'))
    microsecond = property(lambda s: s._field('microsecond'))

    def utcoffset(self):
        if self.tzinfo is None:
            return None
        return self.tzinfo.utcoffset(self)

    def replace(self, **kw):
        if set(kw) - {'tzinfo'}:
            raise Unsupported('datetime.replace(%s)' % sorted(kw))
        r = datetime.__new__(datetime)
        r.us, r.f, r.tzinfo = self.us, self.f, kw['tzinfo']
        return r

    def timetuple(self):
        return ('timetuple', self)

    def _chk(self, us):
        ok = core.AND(us >= 0, us <= MAX_US)
        if not bool(ok):
            raise core.deliberate(OverflowError('date value out of range'))
        return us

    def __add__(s, o):
        if isinstance(o, timedelta):
            return datetime(_us=s._chk(s._need_us() + o.us),
                            tzinfo=s.tzinfo)
        return NotImplemented
    __radd__ = __add__

    def __sub__(s, o):
        if isinstance(o, timedelta):
            return datetime(_us=s._chk(s._need_us() - o.us),
                            tzinfo=s.tzinfo)
        if isinstance(o, datetime):
            if (s.tzinfo is None) != (o.tzinfo is None):
                raise core.deliberate(TypeError(
                    "can't subtract offset-naive and offset-aware "
                    "datetimes"))
            a, b = s._need_us(), o._need_us()
            if s.tzinfo is not None:
                a = a - s.utcoffset().us
                b = b - o.utcoffset().us
            return timedelta(_us=a - b)
        return NotImplemented

    def _cmp(s, o, f):
        if not isinstance(o, datetime):
            return NotImplemented
        if (s.tzinfo is None) != (o.tzinfo is None):
            raise core.deliberate(TypeError(
                "can't compare offset-naive and offset-aware datetimes"))
        a, b = s._need_us(), o._need_us()
        if s.tzinfo is not None:
            a = a - s.utcoffset().us
            b = b - o.utcoffset().us
        return f(a, b)

    def __lt__(s, o):
        return s._cmp(o, lambda a, b: a < b)

    def __le__(s, o):
        return s._cmp(o, lambda a, b: a <= b)

    def __gt__(s, o):
        return s._cmp(o, lambda a, b: a > b)

    def __ge__(s, o):
        return s._cmp(o, lambda a, b: a >= b)

    __hash__ = None


class FakeDatetimeModule:
    datetime = datetime
    timedelta = timedelta
    timezone = timezone
    tzinfo = tzinfo
    UTC = timezone.utc


class FakeCalendar:
    @staticmethod
    def timegm(tt):
        if isinstance(tt, tuple) and tt and tt[0] == 'timetuple':
            us = tt[1]._need_us()
            return (us - EPOCH_US) // US          # floor, as timegm does
        import calendar
        return calendar.timegm(tt)
