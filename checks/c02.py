"""C02 - safety check is fail-closed."""
import os
import sys
sys.path.insert(0, os.path.dirname(os.path.dirname(os.path.abspath(__file__))))
from checks import common, img            # noqa: E402

H = img.harnesses()
PROPS = {'C02'}


def build_jobs(tier, seed):
    J = common.Job
    P = {'props': sorted(PROPS)}
    k = 0 if tier == 'quick' else 1
    jobs = [J(H['safetycheck'], dict(P, checks=2 if tier == 'quick' else 3))]
    jobs += img.simple_jobs(J, H, PROPS, k, tier, gpt='all')
    jobs.append(J(H['vhdx'], dict(P, cuts=k, sigs='sym'), split_depth=14))
    jobs.append(J(H['vmdk-text'], dict(P)))
    for mg in (('none', 'qcow2', 'luks', 'vmdk') if tier == 'quick' else
               ('none', 'qcow2', 'luks', 'vhd', 'qed', 'junk', 'vmdk',
                'vhdx')):
        jobs.append(J(H['cli'], dict(P, magic=mg, overlays='single',
                                     nmin=34000 if tier == 'quick' else 512,
                                     nmax=36000), split_depth=8))
    jobs.append(J(H['cli'], dict(P, magic='none', overlays='single',
                                 small_n=True, missing=True, verbose=True)))
    for mg in ('vhd', 'luks', 'qcow2'):
        # truncated images that keep their signature
        jobs.append(J(H['cli'], dict(P, magic=mg, overlays='single',
                                     small_n=True)))
    jobs += img.vmdk_jobs(J, H, PROPS, tier,
                          {'hdr', 'desc1', 'desc2', 'footer'}, k=k)
    return jobs


def describe(tier):
    return {
        'formats': 'every byte of the stream symbolic (so all 64 feature '
        'bits, version, backing-file offset, LUKS version, all boot flags '
        'are covered over their full range), stream length symbolic on both '
        'sides of every structure boundary; chunking: %s' % (
            'one chunk' if tier == 'quick' else 'one symbolic cut'),
        'gpt': 'bounded family: each of the 4 slots fully symbolic in turn '
        '(thorough: every pair) x 3 concrete patterns for the others',
        'cli.main': 'sys.argv, os.path.exists/isfile and open replaced by a '
        'symbolic file from the polyglot family of C03 (qcow2 version / '
        'feature / backing-file variants, LUKS versions, MBR with and '
        'without a partition); exit status 0 implies unique detection and a '
        'safe reference verdict; a clean uniquely detected image exits 0',
        'SafetyCheck': 'harness inspector with %d checks, each passing / '
        'raising SafetyViolation / raising RuntimeError / raising KeyError' %
        (2 if tier == 'quick' else 3),
    }


ASSUME = [
    'reference predicates in /verif/spec/formats.py (written from the '
    'property statement and the format layouts)',
    'struct model, logging/i18n stubs as in C01',
]

if __name__ == '__main__':
    sys.exit(common.main('C02', build_jobs, H, ASSUME, describe))
