"""C01 - image inspection verdict depends on the bytes only, never on the
chunking."""
import os
import sys
sys.path.insert(0, os.path.dirname(os.path.dirname(os.path.abspath(__file__))))
from checks import common, img            # noqa: E402

H = img.harnesses()
PROPS = {'C01'}


def build_jobs(tier, seed):
    J = common.Job
    P = {'props': sorted(PROPS)}
    jobs = [J(H['capture-step'], dict(P, min_length=False)),
            J(H['capture-step'], dict(P, min_length=True)),
            J(H['endcapture-step'], dict(P))]
    k = 1 if tier == 'quick' else 2
    jobs += img.simple_jobs(J, H, PROPS, k, tier)
    jobs.append(J(H['vhdx'], dict(P, cuts=1, sigs='fixed'), split_depth=16))
    # InspectWrapper with all ten inspectors: reads of 4096 (thorough: a
    # symbolic read size) against one read of the whole stream
    for mg in (('none', 'qcow2', 'vmdk') if tier == 'quick' else
               [m for m, _ in img.MAGICS0]):
        jobs.append(J(H['detect-rel'], dict(
            P, magic=mg, overlays='single', relational=True, nmin=33000,
            read=4096 if tier == 'quick' else 'sym', vmdk_ok=True),
            split_depth=8))
    if tier == 'thorough':
        jobs.append(J(H['vhdx'], dict(P, cuts=1, sigs='sym'),
                      split_depth=18))
        jobs.append(J(H['vhdx'], dict(P, cuts=2, sigs='fixed'),
                      split_depth=18))
        jobs.append(J(H['vhdx'], dict(P, cuts=1, sigs='fixed',
                                      rt=['other', 'meta'],
                                      mt=['other', 'vds']), split_depth=18))
        jobs.append(J(H['vhdx-flip'], dict(P, cuts=1, sigs='fixed'),
                      split_depth=16))
        jobs.append(J(H['vhdx'], dict(P, cuts=1, sigs='fixed',
                                      family='backward'), split_depth=12))
        for fmt in ('qcow2', 'luks', 'vhd'):
            jobs.append(J(H['simple-flip'], dict(P, fmt=fmt, cuts=1)))
    jobs.append(J(H['vmdk-text'], dict(P)))
    jobs += img.vmdk_jobs(J, H, PROPS, tier, {'hdr', 'desc1', 'footer'})
    return jobs


def describe(tier):
    return {
        'capture engine': 'one inductive step from an arbitrary invariant-'
        'satisfying pre-state; offset, length, position, chunk length '
        'unbounded integers, contents uninterpreted (covers chunk '
        'sequences of any length)',
        'inspector level': 'run A = %d symbolic cut(s) (empty chunks '
        'included) with queries after every chunk, run B = one chunk; '
        'stream bytes all symbolic; stream length symbolic up to 2048 '
        '(4096 raw, 40960 iso, 16 MiB vhdx)' % (1 if tier == 'quick' else 2),
        'gpt': 'bounded family of MBR tables: one (thorough: up to two) '
        'fully symbolic entries, the others from concrete patterns',
        'vhdx': 'metadata offset M symbolic in [256 KiB, 8 MiB], item '
        'offset/length symbolic 32-bit, size 64-bit; table layouts: one '
        'entry (thorough: also one padding entry before it); signatures '
        'fixed (thorough: symbolic)',
        'wrapper': 'InspectWrapper over the polyglot family of C03 (one '
        'offset-0 magic + at most one overlay, length in [33000, 40960]): '
        'reads of 4096 (thorough: symbolic 512..65536, at most 4 reads) '
        'against a single read; same format / formats / exception',
        'outside': 'more than 2 cuts at inspector level; VMDK see vmdk '
        'harness; VHDX tables with more than 2 entries',
    }


ASSUME = [
    'struct.unpack/calcsize model (standard sizes, < and >), validated per '
    'path by concrete replay on the real struct',
    'logging and i18n are stubbed out (formatting is not the subject)',
    'set iteration order of inspector/region objects is made deterministic '
    '(thorough tier repeats under a second order)',
    'z3 is trusted; every explored path is replayed concretely on the '
    'normally imported module',
]

if __name__ == '__main__':
    sys.exit(common.main('C01', build_jobs, H, ASSUME, describe))
