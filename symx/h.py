"""Helpers for scenario functions that run both symbolically and
concretely."""
import z3
from . import core
from .core import (SymInt, SymBool, SymFloat, wrapint, wrapbool, toint,
                   tobool, AND, OR, NOT, ITE, IMPLIES)
from .sbytes import SymBytes, asbytes
from .sstr import SymStr, DecStr


def is_sym(x):
    return isinstance(x, (SymInt, SymBool, SymFloat, SymBytes, SymStr,
                          DecStr))


def length(x):
    if isinstance(x, SymBytes):
        return x.sym_len()
    return len(x)


def clamp(x, lo, hi):
    """max(lo, min(x, hi)) as a value (ite term when symbolic)"""
    if any(isinstance(v, SymInt) for v in (x, lo, hi)):
        return wrapint(core.zclamp(toint(x), toint(lo), toint(hi)))
    return max(lo, min(x, hi))


def vmin(a, b):
    if isinstance(a, SymInt) or isinstance(b, SymInt):
        return wrapint(core.zmin(toint(a), toint(b)))
    return min(a, b)


def vmax(a, b):
    if isinstance(a, SymInt) or isinstance(b, SymInt):
        return wrapint(core.zmax(toint(a), toint(b)))
    return max(a, b)


def eqbytes(a, b):
    """condition: byte strings a and b are equal.  Symbolically: structural
    equality if provable, else length equality plus agreement at a fresh
    (universally read) index."""
    if not isinstance(a, SymBytes) and not isinstance(b, SymBytes):
        return a == b
    a, b = asbytes(a), asbytes(b)
    if a.struct_eq(b):
        return True
    E = core.ENG
    la, lb = a.len_t(), b.len_t()
    if E.valid(la != lb):
        return False
    k = E.fresh('k')
    inr = z3.And(k >= 0, k < la, la == lb)
    if not E.possible(inr):
        return wrapbool(la == lb)
    # evaluate contents only under the in-range assumption
    saved = len(E.pc)
    E.pc.append(inr)
    try:
        same = a.at(k) == b.at(k)
    finally:
        # keep any branch constraints added by at(); drop nothing: the
        # in-range assumption is made part of the implication instead
        pass
    del E.pc[saved]
    return wrapbool(z3.And(la == lb, z3.Implies(inr, same)))


def veq(a, b):
    """equality condition of two observations (bool/int/bytes/str/None)"""
    if isinstance(a, (SymBytes, bytes)) and isinstance(b, (SymBytes, bytes)):
        return eqbytes(a, b)
    if isinstance(a, (SymBool, bool)) and isinstance(b, (SymBool, bool)):
        if isinstance(a, bool) and isinstance(b, bool):
            return a == b
        return wrapbool(tobool(a) == tobool(b))
    if isinstance(a, tuple) and isinstance(b, tuple):
        if len(a) != len(b):
            return False
        return AND(*[veq(x, y) for x, y in zip(a, b)])
    r = (a == b)
    return r


def int_from_bytes(terms, little):
    """the same sum the struct model builds: sum byte_k * 256**weight"""
    n = len(terms)
    t = z3.IntVal(0)
    for k, byte in enumerate(terms):
        w = k if little else n - 1 - k
        t = t + byte * (256 ** w)
    return t
