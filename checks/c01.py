"""C01 - image inspection verdict depends on the bytes only, never on the
chunking."""
import os
import sys
sys.path.insert(0, os.path.dirname(os.path.dirname(os.path.abspath(__file__))))
from checks import common, img            # noqa: E402
from symx import run as R                 # noqa: E402

H = {
    'capture-step': R.Harness('capture-step', img.scen_capture,
                              img.load_sym, img.load_real),
    'endcapture-step': R.Harness('endcapture-step', img.scen_endcapture,
                                 img.load_sym, img.load_real),
    'simple': R.Harness('simple', img.scen_simple, img.load_sym,
                        img.load_real),
    'simple-flip': R.Harness('simple-flip', img.scen_simple,
                             img.load_sym_flip, img.load_real),
}
H['capture-step'].required_goals = ('captured', 'already-complete',
                                    'chunk-straddles-start')
H['endcapture-step'].required_goals = ('giant-chunk',)
H['simple'].required_goals = ('accepted', 'refused', 'complete-match')

SIMPLE = ('raw', 'qcow2', 'qed', 'vhd', 'vdi', 'gpt', 'luks')


def build_jobs(tier, seed):
    J = common.Job
    jobs = [J(H['capture-step'], {'min_length': False}),
            J(H['capture-step'], {'min_length': True}),
            J(H['endcapture-step'], {})]
    k = 1 if tier == 'quick' else 2
    for fmt in SIMPLE:
        jobs.append(J(H['simple'], {'fmt': fmt, 'cuts': k}))
    return jobs


def describe(tier):
    return {'cuts': 1 if tier == 'quick' else 2}


ASSUME = ['struct model', 'logging stubbed']

if __name__ == '__main__':
    sys.exit(common.main('C01', build_jobs, H, ASSUME, describe))
