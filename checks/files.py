"""Harnesses over oslo_utils.fileutils (C20) above stubs of the OS layer."""
import errno as _errno
import os as _os
import sys

VERIF = _os.path.dirname(_os.path.dirname(_os.path.abspath(__file__)))
sys.path.insert(0, VERIF)

from symx import core, env, h, run as R          # noqa: E402
from symx.core import AND, OR, NOT, ITE            # noqa: E402

FU = 'oslo_utils.fileutils'


class Mods:
    pass


class World:
    """the stubbed OS, (re)configured by each scenario"""
    def __init__(self):
        self.log = []
        self.makedirs = lambda path, mode=0o777: None
        self.isdir = lambda path: False
        self.open = None
        self.mkstemp = None
        self.write = None
        self.close = None
        self.hash_new = None


W = World()


class _Path:
    def __getattr__(self, n):
        return getattr(_os.path, n)

    @staticmethod
    def isdir(p):
        return W.isdir(p)

    @staticmethod
    def getsize(p):
        return W.size


class FakeOs:
    path = _Path()
    SEEK_END, SEEK_SET = _os.SEEK_END, _os.SEEK_SET

    def __getattr__(self, n):
        return getattr(_os, n)

    @staticmethod
    def makedirs(path, mode=0o777):
        return W.makedirs(path, mode)

    @staticmethod
    def fstat(fd):
        class St:
            st_size = W.size
        return St()

    @staticmethod
    def unlink(path):
        raise AssertionError('real unlink must not be reached')

    @staticmethod
    def write(fd, data):
        return W.write(fd, data)

    @staticmethod
    def close(fd):
        return W.close(fd)


class FakeTempfile:
    @staticmethod
    def mkstemp(suffix='', dir=None, prefix='tmp'):
        return W.mkstemp(suffix=suffix, dir=dir, prefix=prefix)


class FakeHashlib:
    @staticmethod
    def new(alg):
        return W.hash_new(alg)


class FakeTime:
    @staticmethod
    def sleep(x):
        return None


def fake_open(path, mode='r'):
    return W.open(path, mode)


class SymBuf:
    """model of a mutable byte buffer (bytearray) of symbolic length: its
    current contents are a SymBytes value; readinto() of the file stub
    replaces a prefix and keeps the (stale) tail, exactly as the real one"""
    ZERO = None

    def __init__(self, content):
        self.content = content

    def sym_len(self):
        return self.content.sym_len()

    def snapshot(self):
        return self.content

    def __getitem__(self, k):
        if not isinstance(k, slice):
            return self.content[k]
        return SymView(self, k)

    def __setitem__(self, k, v):
        raise core.Unsupported('item assignment on a symbolic bytearray')

    def __getattr__(self, name):
        raise core.Unsupported('symbolic bytearray has no %s()' % name)


class SymView:
    """buf[a:b] / memoryview(buf)[a:b]: resolved when it is consumed"""
    def __init__(self, buf, k=None):
        self.buf, self.k = buf, k

    def snapshot(self):
        c = self.buf.snapshot()
        return c if self.k is None else c[self.k]

    def sym_len(self):
        return self.snapshot().sym_len()

    def __getitem__(self, k):
        if not isinstance(k, slice):
            return self.snapshot()[k]
        return SymView(self, k)

    def __enter__(self):
        return self

    def __exit__(self, *a):
        return False

    def release(self):
        return None

    def __getattr__(self, name):
        raise core.Unsupported('symbolic memoryview has no %s()' % name)


def snapshot(b):
    return b.snapshot() if isinstance(b, (SymBuf, SymView)) else (
        bytes(b) if isinstance(b, (bytearray, memoryview)) else b)


def fake_bytearray(*a):
    if len(a) == 1 and isinstance(a[0], (core.SymInt, int)):
        n = a[0]
        if n < 0:
            raise core.deliberate(ValueError('negative count'))
        from symx.sbytes import Stream, SymBytes
        return SymBuf(SymBytes.of(Stream('zero', default=0), 0, n))
    if a and isinstance(a[0], (SymBuf, SymView)):
        return SymBuf(a[0].snapshot())
    return bytearray(*a)


def fake_memoryview(x):
    if isinstance(x, (SymBuf, SymView)):
        return SymView(x)
    return memoryview(x)


def load_sym():
    ld = env.Loader(env={'os': FakeOs(), 'tempfile': FakeTempfile,
                         'hashlib': FakeHashlib, 'time': FakeTime},
                    builtins_extra={'open': fake_open,
                                    'bytearray': fake_bytearray,
                                    'memoryview': fake_memoryview})
    m = Mods()
    m.fu = ld.load(FU)
    m.sha = ld.sha
    return m


def load_real():
    m = Mods()
    m.fu = env.import_real(FU)
    return m


class patched:
    """concrete mode: put the same stubs into the real module"""
    def __init__(self, ctx, M):
        self.ctx, self.M = ctx, M

    def __enter__(self):
        if not self.ctx.sym:
            fu = self.M.fu
            self.saved = (fu.os, fu.tempfile, fu.hashlib, fu.time)
            fu.os, fu.tempfile, fu.hashlib, fu.time = (
                FakeOs(), FakeTempfile, FakeHashlib, FakeTime)
            fu.open = fake_open
        return self

    def __exit__(self, *a):
        if not self.ctx.sym:
            fu = self.M.fu
            fu.os, fu.tempfile, fu.hashlib, fu.time = self.saved
            del fu.open
        return False


def oserror(e):
    x = OSError(e, 'stub')
    if not isinstance(e, int):
        x.errno = e
    return x


def scen_errno(ctx, M):
    """ensure_tree / delete_if_exists for every errno"""
    fu = M.fu
    e = ctx.int('errno', 1, 200)
    fails = ctx.truth(ctx.bool('fails'))
    isdir = ctx.truth(ctx.bool('isdir'))
    raised = []

    def makedirs(path, mode=0o777):
        W.log.append(('makedirs', path))
        if fails:
            x = oserror(e)
            raised.append(x)
            raise x
    W.log = []
    W.makedirs = makedirs
    W.isdir = lambda p: isdir
    with patched(ctx, M):
        try:
            fu.ensure_tree('/a/b')
            out = 'ok'
        except OSError as x:
            out = 'same' if raised and x is raised[0] else 'other'
    if not fails:
        ctx.check('C20-ensure-tree-ok', out == 'ok')
    else:
        swallowed = AND(e == _errno.EEXIST, isdir)
        ctx.check('C20-ensure-tree-errno', h.veq(out == 'ok', swallowed))
        ctx.check('C20-ensure-tree-reraises-same', out in ('ok', 'same'))
    ctx.check('C20-ensure-tree-one-call', W.log == [('makedirs', '/a/b')])
    # delete_if_exists
    raised2 = []

    def remove(path):
        if fails:
            x = oserror(e)
            raised2.append(x)
            raise x
    try:
        fu.delete_if_exists('/a/f', remove=remove)
        out2 = 'ok'
    except OSError as x:
        out2 = 'same' if raised2 and x is raised2[0] else 'other'
    if not fails:
        ctx.check('C20-delete-ok', out2 == 'ok')
    else:
        ctx.check('C20-delete-errno', h.veq(out2 == 'ok',
                                            e == _errno.ENOENT))
        ctx.check('C20-delete-reraises-same', out2 in ('ok', 'same'))
    ctx.goal('fails' if fails else 'ok')
    return (out, out2)


def scen_last_bytes(ctx, M):
    fu = M.fu
    N = ctx.int('N', 0, 1 << 40)
    num = ctx.int('num', 0, 1 << 41)
    S = ctx.stream('S', N, default='free')
    other = ctx.truth(ctx.bool('other_error'))
    e2 = ctx.int('errno2', 1, 200)
    ctx.assume(e2 != _errno.EINVAL)

    W.size = N
    injected = []     # the error is injected into seek(.., SEEK_END) only

    class F_:
        def __init__(self):
            self.pos = 0

        def __getattr__(self, name):
            # more of the file API than the stub offers: inconclusive
            raise core.Unsupported('file stub has no %s()' % name)

        def fileno(self):
            return 9

        def seek(self, off, whence=0):
            if whence == _os.SEEK_END:
                if other:
                    injected.append(e2)
                    raise oserror(e2)
                p = N + off
            elif whence == _os.SEEK_CUR:
                p = self.pos + off
            else:
                p = off
            if ctx.truth(p < 0):
                raise oserror(_errno.EINVAL)
            self.pos = p
            return self.pos

        def tell(self):
            return self.pos

        def read(self, n=-1):
            # contract: read(n) allocates a buffer of n bytes first
            if n is not None and not isinstance(n, int) or \
                    isinstance(n, int) and n >= 0:
                if ctx.truth(n > (1 << 34)):
                    raise MemoryError('read(%s)' % ('n',))
                end = h.vmin(self.pos + n, N)
            else:
                end = N
            r = S.slice(self.pos, end)
            self.pos = end
            return r

        def __enter__(self):
            return self

        def __exit__(self, *a):
            return False
    W.open = lambda p, mode='r': F_()
    with patched(ctx, M):
        try:
            data, unread = fu.last_bytes('/x', num)
            out = 'ok'
        except OSError as x:
            out = 'OSError'
        except Exception as x:
            out = 'EXC:' + type(x).__name__
    if injected:
        ctx.goal('other-error')
        ctx.check('C20-last-bytes-reraises', out == 'OSError')
        return (out,)
    start = h.vmax(N - num, 0)
    ctx.check('C20-last-bytes-ok', out == 'ok')
    if out == 'ok':
        ctx.check('C20-last-bytes-data', h.eqbytes(data, S.slice(start, N)))
        ctx.check('C20-last-bytes-unread', h.veq(unread == start, True))
    if ctx.truth(num > N):
        ctx.goal('larger-than-file')
    else:
        ctx.goal('within-file')
    return (out,)


def scen_checksum(ctx, M):
    fu = M.fu
    k = ctx.p['reads']
    if ctx.p.get('chunk_choices'):
        cs = ctx.choice('chunksize_c', ctx.p['chunk_choices'])
    else:
        cs = ctx.int('chunksize', 1, 1 << 30)
    N = ctx.int('N', 0, 1 << 40)
    ctx.assume(N <= k * cs)
    S = ctx.stream('S', N, default='free')
    W.size = N
    updates = []
    reads = []

    class Hasher:
        def update(self, b):
            updates.append(snapshot(b))

        def hexdigest(self):
            return 'digest-of-%d-updates' % len(updates)

    class F_:
        def __init__(self):
            self.pos = 0

        def __getattr__(self, name):
            # an implementation that needs more of the file API than the
            # stub offers cannot be decided here (inconclusive, not wrong)
            raise core.Unsupported('file stub has no %s()' % name)

        def seek(self, off, whence=0):
            self.pos = off if whence == 0 else N + off
            return self.pos

        def tell(self):
            return self.pos

        def fileno(self):
            return 9

        def read(self, n=-1):
            a = self.pos
            b = h.vmin(a + n, N)
            reads.append(n)
            if ctx.truth(b > a):
                self.pos = b
                return S.slice(a, b)
            return S.slice(a, a)

        def readinto(self, buf):
            # fills a prefix of the buffer, leaves its tail as it was
            a = self.pos
            if isinstance(buf, (SymBuf, SymView)):
                while isinstance(buf, SymView) and buf.k is None:
                    buf = buf.buf        # a whole-buffer view: same memory
                if isinstance(buf, SymView):
                    raise core.Unsupported('readinto a sliced view')
                old = buf.snapshot()
                n = h.vmin(old.sym_len(), N - a)
                reads.append(n)
                if ctx.truth(n > 0):
                    self.pos = a + n
                    buf.content = S.slice(a, a + n) + old[n:]
                    return n
                return 0
            data = S.slice(a, min(a + len(buf), N))
            reads.append(len(buf))
            buf[:len(data)] = data
            self.pos = a + len(data)
            return len(data)

        def __enter__(self):
            return self

        def __exit__(self, *a):
            return False
    algs = []
    W.hash_new = lambda alg: (algs.append(alg), Hasher())[1]
    W.open = lambda p, mode='r': F_()
    with patched(ctx, M):
        try:
            r = fu.compute_file_checksum('/x', read_chunksize=cs,
                                         algorithm='sha512')
            out = 'ok'
        except Exception as x:
            r, out = None, 'EXC:' + type(x).__name__
    ctx.check('C20-checksum-no-exception', out == 'ok')
    if out == 'ok':
        whole = None
        for u in updates:
            whole = u if whole is None else whole + u
        if whole is None:
            ctx.check('C20-checksum-covers-content', h.veq(N == 0, True))
        else:
            ctx.check('C20-checksum-covers-content',
                      h.eqbytes(whole, S.whole()))
        ctx.check('C20-checksum-digest', r == 'digest-of-%d-updates' %
                  len(updates))
        ctx.check('C20-checksum-algorithm', algs == ['sha512'])
        ctx.goal('updates-%d' % min(len(updates), 2))
    return (out, len(updates))


def scen_tempfile(ctx, M):
    fu = M.fu
    with_path = ctx.truth(ctx.bool('with_path'))
    wfail = ctx.truth(ctx.bool('write_fails'))
    log = []
    W.makedirs = lambda p, mode=0o777: log.append(('makedirs', p))
    W.isdir = lambda p: True
    W.mkstemp = lambda suffix='', dir=None, prefix='tmp': (
        log.append(('mkstemp', suffix, dir, prefix)), (7, '/t/tmpXYZ'))[1]

    def write(fd, data):
        log.append(('write', fd, data))
        if wfail:
            raise OSError(5, 'io')
    W.write = write
    W.close = lambda fd: log.append(('close', fd))
    content = b'hello'
    with patched(ctx, M):
        try:
            r = fu.write_to_tempfile(content, path='/d' if with_path
                                     else None, suffix='.s', prefix='p')
            out = 'ok'
        except OSError:
            r, out = None, 'OSError'
    want = []
    if with_path:
        want.append(('makedirs', '/d'))
    want += [('mkstemp', '.s', '/d' if with_path else None, 'p'),
             ('write', 7, content), ('close', 7)]
    ctx.check('C20-tempfile-protocol', log == want)
    ctx.check('C20-tempfile-result',
              (out == 'OSError') if wfail else (out == 'ok' and
                                                r == '/t/tmpXYZ'))
    ctx.goal('done')
    return (out,)
