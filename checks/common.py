"""Driver shared by all property checks: job scheduling over processes,
prefix-split parallelism, known findings, evidence, exit codes."""
import argparse
import json
import multiprocessing as mp
import os
import sys
import time
import hashlib

VERIF = os.path.dirname(os.path.dirname(os.path.abspath(__file__)))
sys.path.insert(0, VERIF)

from symx import run as R          # noqa: E402

FINDINGS_FILE = os.path.join(VERIF, 'known_findings.json')
# mutant runs redirect their output so they never touch committed evidence
OUT = os.environ.get('VERIF_OUT', VERIF)
NCPU = int(os.environ.get('VERIF_JOBS', '16'))


class Job:
    def __init__(self, harness, params, split_depth=None, budget=None,
                 max_paths=None, hash_flip=False, forced=()):
        self.harness = harness
        self.params = params
        self.split_depth = split_depth
        self.budget = budget
        self.max_paths = max_paths
        self.hash_flip = hash_flip
        self.forced = tuple(forced)


_JOBS = []
_FINDINGS = ()


def _work(arg):
    i, forced, split = arg
    j = _JOBS[i]
    r = R.run_job(j.harness, j.params, findings=_FINDINGS,
                  forced=forced, split_depth=split,
                  time_budget=j.budget, max_paths=j.max_paths,
                  hash_flip=j.hash_flip)
    r['job'] = i
    return r


def load_findings(prop):
    if not os.path.exists(FINDINGS_FILE):
        return []
    d = json.load(open(FINDINGS_FILE))
    return [f for f in d.get('findings', []) if prop in f.get(
        'properties', [f.get('property')])]


def run_jobs(jobs, findings_ids):
    """returns list of result dicts (one per job/prefix)"""
    global _JOBS, _FINDINGS
    _JOBS = jobs
    _FINDINGS = tuple(findings_ids)
    work = [(i, j.forced, j.split_depth) for i, j in enumerate(jobs)]
    results = []
    ctx = mp.get_context('fork')
    n = min(NCPU, max(1, len(work)))
    if os.environ.get('VERIF_SERIAL'):
        for w in work:
            r = _work(w)
            results.append(r)
            work.extend((r['job'], tuple(c), None) for c in r['cuts'])
        return results
    with ctx.Pool(NCPU) as pool:
        while work:
            nxt = []
            for r in pool.imap_unordered(_work, work, chunksize=1):
                results.append(r)
                for c in r['cuts']:
                    nxt.append((r['job'], tuple(c), None))
            work = nxt
    return results


def main(prop, build_jobs, harnesses, assumptions, describe=None):
    ap = argparse.ArgumentParser()
    ap.add_argument('--tier', default=os.environ.get('VERIF_TIER', 'quick'))
    ap.add_argument('--replay')
    ap.add_argument('--only')
    a = ap.parse_args(sys.argv[2:] if len(sys.argv) > 1 and
                      not sys.argv[1].startswith('-') else sys.argv[1:])
    seed = int(os.environ.get('VERIF_SEED', '0') or 0)
    tier = a.tier if a.tier in ('quick', 'thorough') else 'quick'
    if a.replay:
        return replay(prop, a.replay, harnesses)
    t0 = time.time()
    findings = load_findings(prop)
    known = [f for f in findings if f.get('status') == 'known']
    known_ids = [f['id'] for f in known]
    # 1. known findings: replay each listed witness on the real code
    kf_lines = []
    for f in known:
        h = harnesses.get(f.get('harness'))
        if h is None:
            continue
        try:
            fails, got = R.replay_inputs(h, f['params'],
                                         R.dec_inputs(f['inputs']), ())
        except Exception as e:          # the real code raised
            fails, got = ['raised %s' % type(e).__name__], None
        if fails:
            line = 'KNOWN-FINDING: property=%s %s' % (prop, f['what'])
            print(line)
            kf_lines.append(line)
    # 2. explore
    jobs = build_jobs(tier, seed)
    for j in jobs:
        if j.budget is None:
            # a job that does not finish is reported as inconclusive (exit 2),
            # never as success
            j.budget = 1500 if tier == 'quick' else 5400
    if a.only:
        jobs = [j for j in jobs if a.only in j.harness.name or
                a.only in json.dumps(j.params, sort_keys=True, default=str)]
    results = run_jobs(jobs, known_ids)
    # 3. aggregate
    agg = dict(paths=0, aborted=0, decisions=0, queries=0, cache_hits=0,
               solver_s=0.0, obligations=0, discharged=0)
    witnesses = 0
    samples = []
    goals = {}
    functions = set()
    sha = {}
    labels = set()
    confirmed, unconfirmed, mismatches, inconclusive = [], [], [], []
    per_harness = {}
    for r in results:
        for k in agg:
            agg[k] += r['stats'].get(k, 0)
        witnesses += r['witnesses']
        if len(samples) < 8:
            samples.extend(dict(harness=r['harness'], params=r['params'],
                                **s) for s in r['samples'][:1])
        goals.setdefault(r['harness'], set()).update(r['goals'])
        functions |= set(r['functions'])
        labels |= set(r['labels'])
        sha.update(r['sha'])
        ph = per_harness.setdefault(r['harness'], dict(
            jobs=0, paths=0, queries=0, solver_s=0.0, wall_s=0.0,
            obligations=0))
        ph['jobs'] += 1
        ph['paths'] += r['stats']['paths']
        ph['queries'] += r['stats']['queries']
        ph['obligations'] += r['stats']['obligations']
        ph['solver_s'] = round(ph['solver_s'] + r['stats']['solver_s'], 2)
        ph['wall_s'] = round(ph['wall_s'] + r['wall_s'], 2)
        for v in r['violations']:
            (confirmed if v.get('confirmed') else unconfirmed).append(v)
        for m in r['witness_mismatch']:
            mismatches.append(dict(why=m['why'], harness=r['harness'],
                                   params=r['params'], inputs=m['inputs']))
        for inc in r['inconclusive']:
            inconclusive.append(dict(harness=r['harness'],
                                     params=r['params'], why=inc))
    # required reachability goals
    missing = []
    for j in jobs:
        need = getattr(j.harness, 'required_goals', ())
        have = goals.get(j.harness.name, set())
        for g in need:
            if g not in have and (j.harness.name, g) not in missing:
                missing.append((j.harness.name, g))
    if missing and not a.only:
        inconclusive.append(dict(
            harness='*', params={},
            why='reachability goals not hit (vacuity guard): %r' % missing))
    # 4. report
    os.makedirs(os.path.join(OUT, 'replays'), exist_ok=True)
    os.makedirs(os.path.join(OUT, 'evidence'), exist_ok=True)
    vio_lines = []
    seen = set()
    for v in confirmed:
        blob = json.dumps(dict(property=prop, harness=v['harness'],
                               params=v['params'], inputs=v['inputs'],
                               label=v['label'],
                               failed_labels=v.get('failed_labels'),
                               observed=v.get('observed')),
                          sort_keys=True, default=str)
        key = (v['harness'], v['label'])
        if key in seen:
            continue
        seen.add(key)
        name = '%s-%s.json' % (prop, hashlib.sha256(
            blob.encode()).hexdigest()[:12])
        path = os.path.join(OUT, 'replays', name)
        open(path, 'w').write(blob)
        line = 'VIOLATION property=%s replay=%s' % (prop, path)
        vio_lines.append(line)
        print(line)
        print('  harness=%s label=%s failed=%s' % (
            v['harness'], v['label'], v.get('failed_labels')))
    wall = time.time() - t0
    ev = dict(
        property_id=prop, tier=tier, seed=seed, level='model_checking',
        coverage=dict(
            states=agg['paths'], transitions=max(agg['decisions'], 1)
            if agg['paths'] else 0,
            traces_validated_against_impl=witnesses,
            samples=samples or [dict(note='no path completed')],
            exhaustive=False,
            obligations=agg['obligations'], discharged=agg['discharged'],
            queries=agg['queries'], cache_hits=agg['cache_hits'],
            solver_s=round(agg['solver_s'], 2),
            infeasible_paths=agg['aborted'],
            solver='z3 %s (python wheel)' % _z3ver(),
            per_harness=per_harness,
            functions_executed=sorted(functions),
            source_sha256=sha,
            obligation_labels=sorted(labels),
            reachability_goals={k: sorted(v) for k, v in goals.items()},
            bounds=describe(tier) if describe else {},
            known_findings=kf_lines,
            inconclusive=len(inconclusive),
            witness_mismatches=len(mismatches),
            unconfirmed_counterexamples=len(unconfirmed),
            explanation='bounded symbolic execution of the real source '
            '(paths = states, branch decisions = transitions); every '
            'obligation on every path decided by z3; every path replayed '
            'concretely on the real module'),
        assumptions=list(assumptions),
        wall_s=round(wall, 2), violations=len(vio_lines))
    json.dump(ev, open(os.path.join(OUT, 'evidence', prop + '.json'), 'w'),
              indent=1, sort_keys=True, default=str)
    print('%s tier=%s paths=%d obligations=%d/%d queries=%d solver=%.1fs '
          'witnesses=%d wall=%.1fs' % (
              prop, tier, agg['paths'], agg['discharged'],
              agg['obligations'], agg['queries'], agg['solver_s'],
              witnesses, wall))
    for hn, ph in sorted(per_harness.items()):
        print('  %-28s jobs=%-3d paths=%-6d obl=%-6d queries=%-7d '
              'solver=%.1fs wall=%.1fs' % (
                  hn, ph['jobs'], ph['paths'], ph['obligations'],
                  ph['queries'], ph['solver_s'], ph['wall_s']))
    if vio_lines:
        return 1
    bad = False
    for u in unconfirmed[:5]:
        print('HARNESS-ERROR counterexample did not reproduce on the real '
              'code: %s' % json.dumps(u, default=str)[:1500])
        bad = True
    for m in mismatches[:5]:
        print('HARNESS-ERROR witness mismatch: %s' % json.dumps(
            m, default=str)[:1500])
        bad = True
    for inc in inconclusive[:5]:
        print('INCONCLUSIVE %s %s: %s' % (
            inc['harness'], json.dumps(inc['params'], default=str)[:200],
            inc['why'][:300].replace('\n', ' | ')))
        bad = True
    if agg['paths'] == 0:
        print('INCONCLUSIVE no path explored')
        bad = True
    return 2 if bad else 0


def _z3ver():
    import z3
    return z3.get_version_string()


def replay(prop, path, harnesses):
    d = json.load(open(path))
    h = harnesses[d['harness']]
    try:
        fails, got = R.replay_inputs(h, d['params'],
                                     R.dec_inputs(d['inputs']), ())
    except Exception as e:
        print('replay raised %s: %s' % (type(e).__name__, e))
        return 2
    print('observed:', json.dumps(R.jsonable(got), default=str)[:2000])
    if fails:
        print('failed obligations:', fails)
        print('VIOLATION property=%s replay=%s' % (prop, path))
        return 1
    print('no violation reproduced')
    return 0
