"""C10 - string_to_bytes computes the exact byte quantity or raises
ValueError."""
import os
import sys
sys.path.insert(0, os.path.dirname(os.path.dirname(os.path.abspath(__file__))))
from checks import common, strs           # noqa: E402
from symx import run as R                 # noqa: E402

H = {'s2b': R.Harness('s2b', strs.scen_s2b, strs.load_sym, strs.load_real)}
H['s2b'].required_goals = ('accepted', 'rejected')
H['s2b-twice'] = R.Harness('s2b-twice', strs.scen_s2b_twice, strs.load_sym,
                           strs.load_real)
H['s2b-twice'].required_goals = ('done',)
H['extract'] = R.Harness('extract', strs.scen_extract, strs.load_sym_qemu,
                         strs.load_real_qemu)
H['extract'].required_goals = ('explicit-bytes', 'no-unit', 'unit',
                               'bad-unit')


def build_jobs(tier, seed):
    J = common.Job
    jobs = []
    for system in ('IEC', 'SI', 'mixed', 'bogus'):
        for rint in (False, True):
            jobs.append(J(H['s2b'], dict(system=system, return_int=rint,
                                         nmag=3 if tier == 'quick' else 4),
                          split_depth=8))
    jobs.append(J(H['extract'], {}, split_depth=6))
    jobs.append(J(H['s2b-twice'], {}, split_depth=4))
    return jobs


def describe(tier):
    return {
        'text': 'sign in {none,+,-,space} + 1..%d magnitude characters over '
        '[0-9.x] + 0..2 prefix characters over [kKMGTPEZYRQimx] + 1..3 unit '
        'characters over [bitBx], all symbolic' % (
            3 if tier == 'quick' else 4),
        'number': 'float() of the numeric part is an opaque symbolic finite '
        'double m (the harness checks it was applied to exactly the '
        'sign+magnitude substring)',
        'arithmetic': 'z3 FloatingPoint(11,53) RNE; result compared '
        'bit-for-bit with m [/ 8] * base**exp from the reference table; '
        'return_int compared with the ceiling',
        'unit systems': 'IEC, SI, mixed, unknown',
        'QemuImgInfo._extract_bytes': '1..2 symbolic digits, optional '
        'space, 0..3 unit characters over [KMGTBibx], optional "(N bytes)" '
        'with 1..3 symbolic digits',
        'outside': 'decimal-to-double conversion, |m| > 1e200 (overflow), '
        'exponent notation in qemu-img sizes',
    }


ASSUME = ['float(str) is an opaque finite double', 're model as in C04',
          'reference prefix tables in /verif/spec/units.py']

if __name__ == '__main__':
    sys.exit(common.main('C10', build_jobs, H, ASSUME, describe))
