"""C11 - address validators accept exactly well-formed values and never
raise."""
import os
import sys
sys.path.insert(0, os.path.dirname(os.path.dirname(os.path.abspath(__file__))))
from checks import common, net            # noqa: E402
from symx import run as R                 # noqa: E402


def mk(name, f):
    hh = R.Harness(name, f, net.load_sym, net.load_real)
    hh.required_goals = ('done',)
    return hh


H = {'intrange': mk('intrange', net.scen_intrange),
     'mac': mk('mac', net.scen_mac),
     'scope': mk('scope', net.scen_scope),
     'ipv4': mk('ipv4', net.scen_ipv4),
     'cidr': mk('cidr', net.scen_cidr)}


def build_jobs(tier, seed):
    J = common.Job
    q = tier == 'quick'
    P = {'props': ['C11']}
    return [
        J(H['intrange'], dict(P, kind='int')),
        J(H['intrange'], dict(P, kind='str', n=4 if q else 6),
          split_depth=8),
        J(H['mac'], dict(P, lengths=[16, 17, 18] if q else
                         [0, 1, 15, 16, 17, 18, 19]), split_depth=10),
        J(H['scope'], dict(P, maxtail=18), split_depth=8),
        J(H['ipv4'], dict(P)),
        J(H['cidr'], dict(P, maxtail=3 if q else 4), split_depth=6),
    ]


def describe(tier):
    q = tier == 'quick'
    return {
        'ports / ICMP': 'every int (unbounded) and every string of up to %d '
        'characters over digits, signs, underscore, whitespace, dot, '
        'letters; None' % (4 if q else 6),
        'mac': 'every string of length %s over [09afAFgG:-\\n. _[`@]' % (
            '16..18' if q else '0,1,15..19'),
        'ipv6 scope': 'address placeholder + 0..18 characters over [%a1] '
        '(scope ids of length 0..17, several % signs)',
        'cidr': 'network placeholder + 0..%d characters over [/8x]' % (
            3 if q else 4),
        'stubs': 'netaddr.valid_ipv4/valid_ipv6/IPNetwork are contract '
        'stubs over placeholder addresses; for malformed input they answer '
        'False or raise AddrFormatError or ValueError (symbolic choice)',
        'outside': 'which strings are addresses (netaddr / the standard '
        'library decide that); agreement with the standard library parser',
    }


ASSUME = ['netaddr contract stubs as described; the same stub is patched '
          'into the real module for the concrete replay',
          're and int() models as in C04/C14']

if __name__ == '__main__':
    sys.exit(common.main('C11', build_jobs, H, ASSUME, describe))
