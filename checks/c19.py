"""C19 - path splitting honours its contract (split_by_commas: outside)."""
import os
import sys
sys.path.insert(0, os.path.dirname(os.path.dirname(os.path.abspath(__file__))))
from checks import common, strs           # noqa: E402
from symx import run as R                 # noqa: E402

H = {'split-path': R.Harness('split-path', strs.scen_split_path,
                             strs.load_sym, strs.load_real)}
H['split-path'].required_goals = ('split', 'rejected')


def build_jobs(tier, seed):
    J = common.Job
    jobs = []
    n = 8 if tier == 'quick' else 10
    for mn in (1, 2, 3, 4):
        for mx in sorted({None, 0, mn - 1, mn, mn + 1, mn + 2} - {-1},
                         key=lambda v: -1 if v is None else v):
            for rwl in (False, True):
                jobs.append(J(H['split-path'], dict(
                    n=n, minsegs=mn, maxsegs=mx, rwl=rwl), split_depth=8))
    return jobs


def describe(tier):
    return {
        'path': 'every string of up to %d characters over {/, a, space, .}'
        % (8 if tier == 'quick' else 10),
        'arguments': 'minsegs 1..4, maxsegs in {None, 0, min-1..min+2}, '
        'rest_with_last both',
        'outside': 'split_by_commas (pyparsing runs on the value itself; '
        'not encodable), longer paths, other characters (the code only '
        'distinguishes / from everything else)',
    }


ASSUME = ['reference splitter in checks/strs.py ref_split_path, written '
          'from the statement with a manual scanner',
          'urllib.parse.quote only formats the error message']

if __name__ == '__main__':
    sys.exit(common.main('C19', build_jobs, H, ASSUME, describe))
