"""Harnesses over oslo_utils.imageutils.format_inspector (C01-C03, C05-C07).

Every scenario function runs twice: symbolically on the source loaded from
/repo's working tree (symx.env.Loader) and concretely on the normally
imported module (witness / counterexample replay)."""
import os
import sys

VERIF = os.path.dirname(os.path.dirname(os.path.abspath(__file__)))
sys.path.insert(0, VERIF)

from symx import core, env, h, run as R          # noqa: E402
from symx.core import AND, OR, NOT, ITE, IMPLIES  # noqa: E402
from spec import formats as F                     # noqa: E402

FI = 'oslo_utils.imageutils.format_inspector'
HASHED = ('FileInspector', 'CaptureRegion')


class Mods:
    pass


def load_sym(flip=False):
    ld = env.Loader()
    m = Mods()
    m.fi = ld.load(FI)
    env.deterministic_hashes(m.fi, HASHED, flip)
    m.sha = ld.sha
    m.loader = ld
    return m


def load_sym_flip():
    return load_sym(True)


def load_real():
    m = Mods()
    m.fi = env.import_real(FI)
    return m


CLS = {'raw': 'RawFileInspector', 'qcow2': 'QcowInspector',
       'qed': 'QEDInspector', 'vhd': 'VHDInspector',
       'vhdx': 'VHDXInspector', 'vmdk': 'VMDKInspector',
       'vdi': 'VDIInspector', 'iso': 'ISOInspector', 'gpt': 'GPTInspector',
       'luks': 'LUKSInspector'}

ZERO_UNTIL_CAPTURED = ('qcow2', 'vhd', 'vhdx', 'vmdk', 'vdi', 'iso')

# stream length bound per simple format: beyond the last decision point
NMAX = {'raw': 4096, 'qcow2': 2048, 'qed': 2048, 'vhd': 2048, 'vdi': 2048,
        'iso': 40 * 1024, 'gpt': 2048, 'luks': 2048}


def _pte(boot=0, chs=(0, 0, 0), typ=0, lba=0, size=0):
    return bytes([boot, *chs, typ, 0, 0, 0]) + lba.to_bytes(4, 'little') + \
        size.to_bytes(4, 'little')


_E = _pte()
_D = _pte(0x80, (1, 1, 0), 0x83, 2048, 4096)
_P = _pte(0, (0, 2, 0), 0xEE, 1, 0xFFFFFFFF)
GPT_PATTERNS = {
    'empty': [_E, _E, _E, _E],
    'data': [_D, _D, _D, _D],
    'protective0': [_P, _E, _E, _E],
}


# ---------------------------------------------------------------- L1
def scen_capture(ctx, M):
    """One inductive step of CaptureRegion.capture from an arbitrary
    pre-state satisfying the invariant `data == S[off : off+d]`,
    d = clamp(p - off, 0, len), for an arbitrary next chunk S[p : p+c]."""
    fi = M.fi
    off = ctx.int('off', 0)
    ln = ctx.int('ln', 0)
    p = ctx.int('p', 0)
    c = ctx.int('c', 0)
    use_min = ctx.p.get('min_length', False)
    ml = ctx.int('ml', 0) if use_min else None
    S = ctx.stream('S', p + c, default='free')
    d = h.clamp(p - off, 0, ln)
    r = fi.CaptureRegion(off, ln, min_length=ml)
    r.data = S.slice(off, off + d)
    was_complete = ctx.truth(r.complete)
    if not was_complete:          # FileInspector._capture skips complete ones
        r.capture(S.slice(p, p + c), p + c)
        ctx.goal('captured')
    else:
        ctx.goal('already-complete')
    d2 = h.clamp(p + c - off, 0, ln)
    if was_complete:
        d2 = d
    ctx.check('C01-L1-data', h.eqbytes(r.data, S.slice(off, off + d2)))
    n = h.length(r.data)
    ctx.check('C01-L1-len', n == d2)
    ctx.check('C05-L-bound', n <= ln)
    comp = r.complete
    if use_min:
        ctx.check('C01-L1-complete', h.veq(comp, d2 >= ml))
    else:
        ctx.check('C01-L1-complete', h.veq(comp, d2 == ln))
    if ctx.truth(AND(c > 0, p <= off, off < p + c, ln > 0)):
        ctx.goal('chunk-straddles-start')
    return ('done',)


def scen_endcapture(ctx, M):
    """One step of EndCaptureRegion: data is the last min(n, pos) bytes."""
    fi = M.fi
    n = ctx.int('n', 1)        # EndCaptureRegion(0) is meaningless (data[-0:])
    p = ctx.int('p', 0)
    c = ctx.int('c', 0)
    S = ctx.stream('S', p + c, default='free')
    r = fi.EndCaptureRegion(n)
    have = h.vmin(n, p)
    r.data = S.slice(p - have, p)
    r.offset = p - have
    r.capture(S.slice(p, p + c), p + c)
    have2 = h.vmin(n, p + c)
    ctx.check('C01-L1-end-data', h.eqbytes(r.data,
                                           S.slice(p + c - have2, p + c)))
    ctx.check('C01-L1-end-offset', r.offset == p + c - have2)
    ctx.check('C05-L-end-bound', h.length(r.data) <= n)
    ctx.check('C01-L1-end-incomplete', h.veq(r.complete, False))
    r.finish()
    ctx.check('C01-L1-end-complete', h.veq(r.complete, have2 == n))
    if ctx.truth(AND(c > n, n > 0)):
        ctx.goal('giant-chunk')
    return ('done',)


# ---------------------------------------------------------------- inspectors
def observe(ctx, fi, insp, size_hook=None):
    """(match, complete, virtual_size, safety) of an inspector; booleans
    are forked into concrete values, the size stays symbolic"""
    m = ctx.truth(insp.format_match)
    c = ctx.truth(insp.complete)
    try:
        vs = insp.virtual_size
    except Exception as e:
        vs = 'EXC:' + type(e).__name__
    try:
        insp.safety_check()
        sc = 'ok'
    except fi.SafetyCheckFailed as ex:
        sc = 'fail:' + ','.join(sorted(ex.failures))
    except fi.ImageFormatError:
        sc = 'refused'
    except Exception as e:
        sc = 'EXC:' + type(e).__name__
    return (m, c, vs, sc)


def feed(ctx, fi, cls, chunks, queries, regions_log=None):
    """present chunks; returns ('ok', inspector) or ('exc', name, insp)"""
    insp = cls()
    try:
        for ch in chunks:
            insp.eat_chunk(ch)
            if queries:
                # queries made in between must not disturb anything
                insp.format_match
                insp.complete
                try:
                    insp.virtual_size
                except Exception:
                    pass
                insp.context_info
        insp.finish()
    except fi.ImageFormatError:
        return ('ImageFormatError', insp)
    except Exception as e:
        return (type(e).__name__, insp)
    return (None, insp)


def cuts(ctx, k, N):
    cs = []
    prev = 0
    for i in range(k):
        c = ctx.int('c%d' % (i + 1), 0)
        ctx.assume(AND(c >= prev, c <= N))
        cs.append(c)
        prev = c
    return cs


def chunks_of(S, cs):
    out = []
    prev = 0
    for c in cs:
        out.append(S.slice(prev, c))
        prev = c
    out.append(S.slice(prev, S.N))
    return out


def retained_ok(ctx, insp, S, label):
    """whatever is retained for a region is S[offset : offset+len(data)]"""
    for name, region in insp._capture_regions.items():
        n = h.length(region.data)
        ctx.check('%s-%s' % (label, name),
                  h.eqbytes(region.data,
                            S.slice(region.offset, region.offset + n)))


def scen_simple(ctx, M):
    """A simple (fixed-layout) format: k symbolic cuts with intermediate
    queries (run A) against one chunk (run B), plus the reference
    predicates for match / complete / size / safety."""
    fi = M.fi
    fmt = ctx.p['fmt']
    ref = F.REFS[fmt]
    cls = getattr(fi, CLS[fmt])
    N = ctx.int('N', 0, ctx.p.get('nmax', NMAX[fmt]))
    fixed = {}
    if fmt == 'gpt' and ctx.p.get('gpt_sym') is not None:
        # bounded family of MBR tables: the listed entries are fully
        # symbolic, the others follow a concrete pattern
        pat = GPT_PATTERNS[ctx.p.get('gpt_fixed', 'empty')]
        for i in range(4):
            if i not in ctx.p['gpt_sym']:
                for j, b in enumerate(pat[i]):
                    fixed[446 + 16 * i + j] = b
    if fmt == 'iso' and ctx.p.get('iso_bs') is not None:
        bs = ctx.p['iso_bs']
        fixed = {32896: bs & 255, 32897: bs >> 8}
    S = ctx.stream('S', N, fixed=fixed, default='free')
    cs = cuts(ctx, ctx.p['cuts'], N)
    # run B first: its (content) decisions are then shared by all the
    # chunking paths of run A
    eb, B = feed(ctx, fi, cls, [S.whole()], False)
    ob = observe(ctx, fi, B) if eb is None else None
    ea, A = feed(ctx, fi, cls, chunks_of(S, cs), True)
    ctx.check('C01-rel-exception', ea == eb)
    ctx.check('C03-total-only-IFE', ea in (None, 'ImageFormatError'))
    if ea is not None or eb is not None:
        ctx.goal('rejected-by-eat_chunk')
        return (ea, eb)
    oa = observe(ctx, fi, A)
    ctx.check('C01-rel-match', oa[0] == ob[0])
    ctx.check('C01-rel-complete', oa[1] == ob[1])
    ctx.check('C01-rel-size', h.veq(oa[2], ob[2]))
    ctx.check('C01-rel-safety', oa[3] == ob[3])
    retained_ok(ctx, A, S, 'C01-retain')
    # C05: retained bytes never exceed the bound
    total = 0
    for v in A.context_info.values():
        total = total + v
    ctx.check('C05-bound', total <= ref.bound)
    # reference predicates
    m, c, vs, sc = oa
    ctx.check('C01-ref-complete', h.veq(c, ref.complete(S)))
    ctx.check('C03-match-iff-signature', h.veq(m, ref.signature(S)))
    # C07: declared size for a complete, matching image; 0 while the
    # structure carrying the size has not been captured
    if c and m:
        ctx.check('C07-size', h.veq(vs, ref.size(S)) if not isinstance(
            vs, str) else False)
    elif not c and fmt in ZERO_UNTIL_CAPTURED:
        ctx.check('C07-zero-while-unknown', h.veq(vs, 0))
    # C02: fail closed
    fails = ref.failing(S) if (c and m) else {}
    if sc == 'ok':
        ctx.goal('accepted')
        ctx.check('C02-ok-needs-complete-match', AND(c, m))
        for name, cond in fails.items():
            ctx.check('C02-accepted-but-%s' % name, NOT(cond))
    elif sc == 'refused':
        ctx.goal('refused')
        ctx.check('C02-refused-iff', NOT(AND(c, m)))
    elif sc.startswith('fail:'):
        ctx.goal('failed')
        got = set(sc[5:].split(','))
        ctx.check('C02-checks-known', got <= set(ref.checks))
        for name in ref.checks:
            ctx.check('C02-check-%s' % name,
                      h.veq(name in got, fails.get(name, False)))
    else:
        ctx.check('C02-no-other-exception', False)
    if c and m:
        ctx.goal('complete-match')
    return (ea, eb, m, c, vs, sc)


# ---------------------------------------------------------------- VHDX
import uuid as _uuid

G_META = _uuid.UUID('8B7CA206-4790-4B9A-B8FE-575F050F886E').bytes_le
G_VDS = _uuid.UUID('2FA54224-CD1B-4876-B211-5DBED83BF4B8').bytes_le
G_BAT = _uuid.UUID('2DC27766-F623-4200-9D64-115E9BFD4A08').bytes_le
G_FILEPARAM = _uuid.UUID('CAA16737-FA36-4D43-B3B6-33F0AA44E76B').bytes_le
HDR = 192 * 1024
KiB = 1024


def le_sum(ctx, names):
    """value of a little-endian field made of named symbolic bytes"""
    import z3
    if ctx.sym:
        return core.wrapint(h.int_from_bytes([z3.Int(n) for n in names],
                                             True))
    return None


def scen_vhdx(ctx, M):
    """VHDX: region table -> metadata table -> virtual-disk-size item with
    a symbolic metadata offset, item offset, item length, size, stream
    length and chunking.  Run A (k cuts + queries) against run B (one
    chunk), retention, memory bound, declared size."""
    fi = M.fi
    p = ctx.p
    rt = p.get('rt', ['meta'])          # region-table entries
    mt = p.get('mt', ['vds'])           # metadata-table entries
    fixed = {}
    # region table header: 'regi' left free (4 bytes), count fixed
    cnt = len(rt)
    for i, b in enumerate(cnt.to_bytes(4, 'little')):
        fixed[HDR + 8 + i] = b
    if p.get('sigs', 'sym') == 'sym':
        sym_cells = [HDR + j for j in range(4)] + list(range(8))
    else:
        sym_cells = []
        for j, b in enumerate(b'vhdxfile'):
            fixed[j] = b
        for j, b in enumerate(b'regi'):
            fixed[HDR + j] = b
    for i, kind in enumerate(rt):
        e = HDR + 16 + 32 * i
        g = G_META if kind == 'meta' else G_BAT
        for j, b in enumerate(g):
            fixed[e + j] = b
        if kind == 'meta':
            sym_cells += [e + 16 + j for j in range(8)]
    mi = rt.index('meta') if 'meta' in rt else None
    N = ctx.int('N', 0, p.get('nmax', 16 * KiB * KiB))
    segs = []
    Moff = None
    if mi is not None:
        e = HDR + 16 + 32 * mi
        mcount = len(mt)
        table = [('sym', 'msig0') if p.get('sigs', 'sym') == 'sym'
                 else ord('m')] + list(b'etadata') + [0, 0] + \
            list(mcount.to_bytes(2, 'little')) + [0] * 20
        vi = mt.index('vds') if 'vds' in mt else None
        for i, kind in enumerate(mt):
            g = G_VDS if kind == 'vds' else G_FILEPARAM
            table += list(g)
            if kind == 'vds':
                table += [('sym', 'io%d' % j) for j in range(4)]
                table += [('sym', 'il%d' % j) for j in range(4)]
                table += [0] * 8
            else:
                table += list((65536 + 4096 * i).to_bytes(4, 'little')) + \
                    list((8).to_bytes(4, 'little')) + [0] * 8
    fam = p.get('family', 'forward')

    def family(Mv):
        if fam == 'forward':
            ctx.assume(Mv >= 256 * KiB)
            ctx.assume(Mv <= p.get('mmax', 8 * KiB * KiB))
        elif fam == 'backward':
            ctx.assume(Mv < 256 * KiB)
    # symbolically the family assumption on M must be in force before the
    # stream is read (the table segment is placed at M)
    if ctx.sym and mi is not None:
        import z3
        Mv = core.wrapint(h.int_from_bytes(
            [z3.Int('S_%d' % (HDR + 16 + 32 * mi + 16 + j))
             for j in range(8)], True))
        IO = core.wrapint(h.int_from_bytes(
            [z3.Int('io%d' % j) for j in range(4)], True))
        for j in range(8):
            ctx.byte_var('S_%d' % (HDR + 16 + 32 * mi + 16 + j))
        for j in range(4):
            ctx.byte_var('io%d' % j)
        family(Mv)
        lb = 256 * KiB if fam == 'forward' else None
        # later segments win where they overlap: the table wins over the
        # size item
        if vi is not None:
            segs.append((Mv + IO, [('sym', 'sz%d' % j) for j in range(8)],
                         lb))
        segs.append((Mv, table, lb))
    S = ctx.stream('S', N, sym_cells=sym_cells, fixed=fixed,
                   default=p.get('default', 0), segs=segs)
    if not ctx.sym and mi is not None:
        Mv = S.le(HDR + 16 + 32 * mi + 16, 8)
        family(Mv)
    cs = cuts(ctx, p['cuts'], N)
    cls = fi.VHDXInspector
    eb, B = feed(ctx, fi, cls, [S.whole()], False)
    ob = observe(ctx, fi, B) if eb is None else None
    ea, A = feed(ctx, fi, cls, chunks_of(S, cs), True)
    ctx.check('C01-rel-exception', ea == eb)
    ctx.check('C03-total-only-IFE', ea in (None, 'ImageFormatError') and
              eb in (None, 'ImageFormatError'))
    total = 0
    for v in A.context_info.values():
        total = total + v
    ctx.check('C05-bound', total <= 512 * KiB)
    for name, region in A._capture_regions.items():
        ctx.check('C05-region-length-%s' % name, region.length <= 64 * KiB)
    if ea is not None or eb is not None:
        ctx.goal('rejected-by-eat_chunk')
        return (ea, eb)
    oa = observe(ctx, fi, A)
    ctx.check('C01-rel-match', oa[0] == ob[0])
    ctx.check('C01-rel-complete', oa[1] == ob[1])
    ctx.check('C01-rel-size', h.veq(oa[2], ob[2]))
    ctx.check('C01-rel-safety', oa[3] == ob[3])
    retained_ok(ctx, A, S, 'C01-retain')
    m, c, vs, sc = oa
    ctx.check('C03-match-iff-signature', h.veq(m, S.has(0, b'vhdxfile')))
    # C07 on the well-formed skeleton
    if mi is not None and vi is not None and fam == 'forward':
        e = Mv + 32 + 32 * vi
        io = S.le(e + 16, 4)
        il = S.le(e + 20, 4)
        size = S.le(Mv + io, 8)
        entries = 32 + 32 * len(mt)
        wf = AND(N >= 256 * KiB, S.has(HDR, b'regi'),
                 S.has(Mv, b'metadata'), io >= entries, il == 8,
                 N >= Mv + io + 8, N >= Mv + entries)
        if ctx.truth(wf):
            ctx.goal('well-formed')
            ctx.check('C07-size', h.veq(vs, size))
            ctx.check('C07-complete', c)
            if m:
                ctx.check('C02-clean-accepted', sc == 'ok')
        elif ctx.truth(AND(N >= 256 * KiB, S.has(HDR, b'regi'),
                           S.has(Mv, b'metadata'), io >= entries, il == 8,
                           N < Mv + io + 8)):
            ctx.goal('truncated-before-size')
            ctx.check('C07-zero-while-unknown', h.veq(vs, 0))
    elif fam == 'forward':
        ctx.check('C07-no-size-item', h.veq(vs, 0))
    if sc == 'ok':
        ctx.check('C02-ok-needs-complete-match', c and m)
    return (ea, eb, m, c, vs, sc)


# ---------------------------------------------------------------- job sets
def harnesses():
    H = {
        'capture-step': R.Harness('capture-step', scen_capture, load_sym,
                                  load_real),
        'endcapture-step': R.Harness('endcapture-step', scen_endcapture,
                                     load_sym, load_real),
        'simple': R.Harness('simple', scen_simple, load_sym, load_real),
        'simple-flip': R.Harness('simple-flip', scen_simple, load_sym_flip,
                                 load_real),
        'vhdx': R.Harness('vhdx', scen_vhdx, load_sym, load_real),
        'vhdx-flip': R.Harness('vhdx-flip', scen_vhdx, load_sym_flip,
                               load_real),
    }
    H['safetycheck'] = R.Harness('safetycheck', scen_safetycheck, load_sym,
                                 load_real)
    H['safetycheck'].required_goals = ('ok', 'fail', 'refused')
    H['capture-step'].required_goals = ('captured', 'already-complete',
                                        'chunk-straddles-start')
    H['endcapture-step'].required_goals = ('giant-chunk',)
    H['simple'].required_goals = ('accepted', 'refused', 'complete-match')
    H['vhdx'].required_goals = ('well-formed', 'truncated-before-size',
                                'rejected-by-eat_chunk')
    return H


SIMPLE = ('raw', 'qcow2', 'qed', 'vhd', 'vdi', 'luks')


def simple_jobs(J, H, props, k, tier, gpt='few', iso_bs=(2048,)):
    jobs = []
    P = {'props': sorted(props), 'cuts': k}
    for fmt in SIMPLE:
        jobs.append(J(H['simple'], dict(P, fmt=fmt)))
    for bs in iso_bs:
        jobs.append(J(H['simple'], dict(P, fmt='iso', iso_bs=bs)))
    if gpt == 'few':
        fam = [([0], 'empty'), ([3], 'data'), ([1], 'protective0')]
    else:
        fam = [([i], pat) for i in range(4)
               for pat in ('empty', 'data', 'protective0')]
        if tier == 'thorough':
            fam += [([i, j], pat) for i in range(4) for j in range(i + 1, 4)
                    for pat in ('empty', 'data')]
    for sym, pat in fam:
        jobs.append(J(H['simple'], dict(P, fmt='gpt', gpt_sym=sym,
                                        gpt_fixed=pat),
                      split_depth=10 if len(sym) > 1 else None))
    return jobs


# ---------------------------------------------------------------- SafetyCheck
def scen_safetycheck(ctx, M):
    """FileInspector.safety_check over a harness-defined inspector whose
    checks pass, raise SafetyViolation, or raise an arbitrary exception
    (symbolic choice per check); completeness and match symbolic too."""
    fi = M.fi
    n = ctx.p.get('checks', 2)
    kinds = [ctx.choice('k%d' % i, ['pass', 'violation', 'error',
                                     'keyerror']) for i in range(n)]
    complete = ctx.truth(ctx.bool('complete'))
    match = ctx.truth(ctx.bool('match'))

    def mk(kind):
        def target():
            if kind == 'violation':
                raise fi.SafetyViolation('no')
            if kind == 'error':
                raise RuntimeError('boom')
            if kind == 'keyerror':
                raise KeyError('x')
            return None
        return target

    class T(fi.FileInspector):
        NAME = 't'

        def _initialize(self):
            for i, k in enumerate(kinds):
                self.add_safety_check(fi.SafetyCheck('c%d' % i, mk(k)))

        @property
        def format_match(self):
            return match

        @property
        def complete(self):
            return complete

    class NoChecks(fi.FileInspector):
        def _initialize(self):
            pass

        @property
        def format_match(self):
            return True

    try:
        NoChecks()
        built = True
    except RuntimeError:
        built = False
    ctx.check('C02-checks-required', not built)
    insp = T()
    try:
        insp.safety_check()
        out = 'ok'
    except fi.SafetyCheckFailed as e:
        out = 'fail:' + ','.join(sorted(e.failures))
    except fi.ImageFormatError:
        out = 'refused'
    except Exception as e:
        out = 'EXC:' + type(e).__name__
    bad = sorted('c%d' % i for i, k in enumerate(kinds) if k != 'pass')
    if not (complete and match):
        want = 'refused'
    elif bad:
        want = 'fail:' + ','.join(bad)
    else:
        want = 'ok'
    ctx.check('C02-safety-outcome', out == want)
    ctx.goal(want.split(':')[0])
    return (out,)
