"""C07 - virtual_size equals the disk size the image declares."""
import os
import sys
sys.path.insert(0, os.path.dirname(os.path.dirname(os.path.abspath(__file__))))
from checks import common, img            # noqa: E402

H = img.harnesses()
PROPS = {'C07'}


def build_jobs(tier, seed):
    J = common.Job
    P = {'props': sorted(PROPS)}
    k = 0 if tier == 'quick' else 1
    jobs = img.simple_jobs(J, H, PROPS, k, tier,
                           iso_bs=(512, 1024, 2048, 4096, 32768))
    layouts = [(['meta'], ['vds']), (['other', 'meta'], ['other', 'vds'])]
    if tier == 'thorough':
        layouts += [(['other', 'other', 'meta'], ['vds']),
                    (['meta', 'other'], ['other', 'other', 'vds'])]
    for rt, mt in layouts:
        jobs.append(J(H['vhdx'], dict(P, cuts=1, sigs='fixed', rt=rt, mt=mt),
                      split_depth=16))
    jobs.append(J(H['vmdk-text'], dict(P)))
    jobs += img.vmdk_jobs(J, H, PROPS, tier, {'hdr', 'desc1'})
    return jobs


def describe(tier):
    return {
        'size fields': 'symbolic over their full range (64-bit qcow2/VHD/'
        'VHDX/VDI, 32-bit ISO block count x block size from {512, 1024, '
        '2048, 4096, 32768}, LUKS payload offset 32-bit, raw/GPT = stream '
        'length)',
        'vhdx layouts': 'metadata entry preceded by 0..1 (thorough 0..2) '
        'padding entries in both tables; M in [256 KiB, 8 MiB]; item '
        'offset 32-bit',
        'truncation': 'stream length symbolic, so every proper prefix is '
        'covered for the 0-while-unknown clause',
    }


ASSUME = ['as C01; reference sizes in /verif/spec/formats.py']

if __name__ == '__main__':
    sys.exit(common.main('C07', build_jobs, H, ASSUME, describe))
