"""Contract model of the part of the stdlib uuid module that uuidutils uses:
UUID(hex) with CPython's normalisation and int(hex, 16) acceptance rules,
str(UUID) / .hex as 32 lower-case hex digits, uuid4() as an arbitrary
128-bit value with the version and variant bits set."""
import z3
from . import core
from .core import SymInt, FieldInt, wrapint, deliberate
from .sstr import SymStr, SymChar, in_set, tosym, WS

HEXDIG = frozenset(b'0123456789abcdefABCDEF')
DEC = frozenset(b'0123456789')
UP = frozenset(b'ABCDEF')
LOW = frozenset(b'abcdef')


def nibble_of(ch):
    """value 0..15 of a character known to be a hex digit (z3 term/int)"""
    if isinstance(ch, int):
        return int(chr(ch), 16)
    c = ch.term()              # no forks: one term for all three ranges
    return z3.If(c <= 57, c - 48, z3.If(c <= 70, c - 55, c - 87))


def parse_hex(s):
    """int(s, 16) with CPython's rules: surrounding whitespace, optional
    sign, optional 0x/0X prefix, hex digits with single underscores between
    digits (an underscore may follow the prefix).  Forks per character;
    raises ValueError.  Returns a FieldInt of nibbles (or its negation)."""
    def bad():
        raise deliberate(ValueError('invalid literal for int() with base 16'))
    c = tosym(s).strip().c
    i = 0
    neg = False
    if c and in_set(c[0], frozenset(b'+-')):
        neg = in_set(c[0], frozenset(b'-'))
        i = 1
    body = c[i:]
    prev_us = True
    if len(body) >= 2 and in_set(body[0], frozenset(b'0')) and \
            in_set(body[1], frozenset(b'xX')):
        body = body[2:]
        prev_us = False            # "0x_1" is accepted
        if not body:
            bad()
        lead_us_ok = True
    else:
        lead_us_ok = False
    digits = []
    first = True
    for ch in body:
        if in_set(ch, HEXDIG):
            digits.append(nibble_of(ch))
            prev_us = False
        elif in_set(ch, frozenset(b'_')):
            if prev_us and not (first and lead_us_ok):
                bad()
            if first and not lead_us_ok:
                bad()
            prev_us = True
        else:
            bad()
        first = False
    if prev_us or not digits:
        bad()
    n = len(digits)
    fields = []
    for k, d in enumerate(digits):
        t = z3.IntVal(d) if isinstance(d, int) else z3.simplify(d)
        fields.append((t, 4 * (n - 1 - k), 4))
    v = FieldInt(fields)
    v = v if not z3.is_int_value(v.t) else v.t.as_long()
    if neg:
        return -v
    return v


def hex32(value):
    """'%032x' % value for 0 <= value < 2**128 -> SymStr of 32 characters"""
    out = []
    for k in range(31, -1, -1):
        nib = (value >> (4 * k)) & 0xF
        if isinstance(nib, int):
            out.append(ord('%x' % nib))
        else:
            t = core.toint(nib)
            out.append(SymChar(z3.simplify(z3.If(t < 10, t + 48, t + 87))))
    return SymStr(out)


class UUID:
    def __init__(self, hex=None, int=None):
        if hex is not None:
            if not isinstance(hex, (str, SymStr)):
                raise deliberate(AttributeError(
                    "object has no attribute 'replace'"))
            hex = tosym(hex)
            hex = hex.replace('urn:', '').replace('uuid:', '')
            hex = hex.strip('{}').replace('-', '')
            if len(hex) != 32:
                raise deliberate(ValueError(
                    'badly formed hexadecimal UUID string'))
            int = parse_hex(hex)
        elif int is None:
            raise deliberate(TypeError('one of the hex or int arguments '
                                       'must be given'))
        ok = core.AND(int >= 0, int < (1 << 128))
        if not bool(ok):
            raise deliberate(ValueError('int is out of range (need a '
                                        '128-bit value)'))
        self.int = int

    @property
    def hex(self):
        return hex32(self.int)

    def __symstr__(self):
        h = self.hex
        return h[:8] + '-' + h[8:12] + '-' + h[12:16] + '-' + h[16:20] + \
            '-' + h[20:]


class FakeUUIDModule:
    UUID = UUID
    source = None          # set by the harness: () -> list of 16 byte terms

    @classmethod
    def uuid4(cls):
        bs = list(cls.source())            # big-endian bytes b0..b15
        fields = []
        for k, b in enumerate(bs):
            sh = 8 * (15 - k)
            if k == 6:                     # version 4 in the high nibble
                fields.append((z3.IntVal(4), sh + 4, 4))
                fields.append((b % 16, sh, 4))
            elif k == 8:                   # variant 10xx
                fields.append((z3.IntVal(2), sh + 6, 2))
                fields.append((b % 64, sh, 6))
            else:
                fields.append((b, sh, 8))
        return UUID(int=FieldInt(fields))
