"""C16 - text coding helpers round-trip, keep their type contract, are
idempotent."""
import os
import sys
sys.path.insert(0, os.path.dirname(os.path.dirname(os.path.abspath(__file__))))
from checks import common, enc            # noqa: E402
from symx import run as R                 # noqa: E402


def mk(name, f, goals):
    hh = R.Harness(name, f, enc.load_sym, enc.load_real)
    hh.required_goals = goals
    return hh


H = {'codec': mk('codec', enc.scen_codec,
                 ('roundtrip', 'same-codec', 'transcoded', 'fallback')),
     'slug': mk('slug', enc.scen_slug, ('done',))}


def build_jobs(tier, seed):
    J = common.Job
    return [J(H['codec'], {}, split_depth=6),
            J(H['slug'], dict(n=3 if tier == 'quick' else 4),
              split_depth=8)]


def describe(tier):
    return {
        'codecs': 'texts and byte strings are opaque; encode/decode are '
        'uninterpreted per codec with dec(enc(t)) = t, a symbolic '
        '"unrepresentable" bit per encode and "undecodable" bit per decode; '
        'codec names {utf-8, latin-1, utf-16, ascii} in symbolic letter '
        'case for both arguments; error policies strict/ignore/replace',
        'to_slug': 'every string of up to %d characters over 0x00-0xFF; '
        'NFKD + ASCII folding is a table computed from the real '
        'unicodedata' % (3 if tier == 'quick' else 4),
        'outside': 'the codecs themselves, code points above 0xFF',
    }


ASSUME = ['codec axioms as stated', 're model as in C04',
          'unicodedata.normalize("NFKD") table for 0x00-0xFF']

if __name__ == '__main__':
    sys.exit(common.main('C16', build_jobs, H, ASSUME, describe))
