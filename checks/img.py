"""Harnesses over oslo_utils.imageutils.format_inspector (C01-C03, C05-C07).

Every scenario function runs twice: symbolically on the source loaded from
/repo's working tree (symx.env.Loader) and concretely on the normally
imported module (witness / counterexample replay)."""
import os
import sys

VERIF = os.path.dirname(os.path.dirname(os.path.abspath(__file__)))
sys.path.insert(0, VERIF)

from symx import core, env, h, run as R          # noqa: E402
from symx.core import AND, OR, NOT, ITE, IMPLIES  # noqa: E402
from spec import formats as F                     # noqa: E402

FI = 'oslo_utils.imageutils.format_inspector'
HASHED = ('FileInspector', 'CaptureRegion')


class Mods:
    pass


def load_sym(flip=False):
    ld = env.Loader()
    m = Mods()
    m.fi = ld.load(FI)
    env.deterministic_hashes(m.fi, HASHED, flip)
    m.sha = ld.sha
    m.loader = ld
    return m


def load_sym_flip():
    return load_sym(True)


def load_real():
    import importlib
    import logging
    logging.disable(logging.CRITICAL)
    m = Mods()
    m.fi = importlib.import_module(FI)
    return m


CLS = {'raw': 'RawFileInspector', 'qcow2': 'QcowInspector',
       'qed': 'QEDInspector', 'vhd': 'VHDInspector',
       'vhdx': 'VHDXInspector', 'vmdk': 'VMDKInspector',
       'vdi': 'VDIInspector', 'iso': 'ISOInspector', 'gpt': 'GPTInspector',
       'luks': 'LUKSInspector'}

# stream length bound per simple format: beyond the last decision point
NMAX = {'raw': 4096, 'qcow2': 2048, 'qed': 2048, 'vhd': 2048, 'vdi': 2048,
        'iso': 40 * 1024, 'gpt': 2048, 'luks': 2048}


# ---------------------------------------------------------------- L1
def scen_capture(ctx, M):
    """One inductive step of CaptureRegion.capture from an arbitrary
    pre-state satisfying the invariant `data == S[off : off+d]`,
    d = clamp(p - off, 0, len), for an arbitrary next chunk S[p : p+c]."""
    fi = M.fi
    off = ctx.int('off', 0)
    ln = ctx.int('ln', 0)
    p = ctx.int('p', 0)
    c = ctx.int('c', 0)
    use_min = ctx.p.get('min_length', False)
    ml = ctx.int('ml', 0) if use_min else None
    S = ctx.stream('S', p + c, default='free')
    d = h.clamp(p - off, 0, ln)
    r = fi.CaptureRegion(off, ln, min_length=ml)
    r.data = S.slice(off, off + d)
    was_complete = ctx.truth(r.complete)
    if not was_complete:          # FileInspector._capture skips complete ones
        r.capture(S.slice(p, p + c), p + c)
        ctx.goal('captured')
    else:
        ctx.goal('already-complete')
    d2 = h.clamp(p + c - off, 0, ln)
    if was_complete:
        d2 = d
    ctx.check('C01-L1-data', h.eqbytes(r.data, S.slice(off, off + d2)))
    n = h.length(r.data)
    ctx.check('C01-L1-len', n == d2)
    ctx.check('C05-L-bound', n <= ln)
    comp = r.complete
    if use_min:
        ctx.check('C01-L1-complete', h.veq(comp, d2 >= ml))
    else:
        ctx.check('C01-L1-complete', h.veq(comp, d2 == ln))
    if ctx.truth(AND(c > 0, p <= off, off < p + c, ln > 0)):
        ctx.goal('chunk-straddles-start')
    return ('done',)


def scen_endcapture(ctx, M):
    """One step of EndCaptureRegion: data is the last min(n, pos) bytes."""
    fi = M.fi
    n = ctx.int('n', 1)        # EndCaptureRegion(0) is meaningless (data[-0:])
    p = ctx.int('p', 0)
    c = ctx.int('c', 0)
    S = ctx.stream('S', p + c, default='free')
    r = fi.EndCaptureRegion(n)
    have = h.vmin(n, p)
    r.data = S.slice(p - have, p)
    r.offset = p - have
    r.capture(S.slice(p, p + c), p + c)
    have2 = h.vmin(n, p + c)
    ctx.check('C01-L1-end-data', h.eqbytes(r.data,
                                           S.slice(p + c - have2, p + c)))
    ctx.check('C01-L1-end-offset', r.offset == p + c - have2)
    ctx.check('C05-L-end-bound', h.length(r.data) <= n)
    ctx.check('C01-L1-end-incomplete', h.veq(r.complete, False))
    r.finish()
    ctx.check('C01-L1-end-complete', h.veq(r.complete, have2 == n))
    if ctx.truth(AND(c > n, n > 0)):
        ctx.goal('giant-chunk')
    return ('done',)


# ---------------------------------------------------------------- inspectors
def observe(ctx, fi, insp, size_hook=None):
    """(match, complete, virtual_size, safety) of an inspector; booleans
    are forked into concrete values, the size stays symbolic"""
    m = ctx.truth(insp.format_match)
    c = ctx.truth(insp.complete)
    try:
        vs = insp.virtual_size
    except Exception as e:
        vs = 'EXC:' + type(e).__name__
    try:
        insp.safety_check()
        sc = 'ok'
    except fi.SafetyCheckFailed as ex:
        sc = 'fail:' + ','.join(sorted(ex.failures))
    except fi.ImageFormatError:
        sc = 'refused'
    except Exception as e:
        sc = 'EXC:' + type(e).__name__
    return (m, c, vs, sc)


def feed(ctx, fi, cls, chunks, queries, regions_log=None):
    """present chunks; returns ('ok', inspector) or ('exc', name, insp)"""
    insp = cls()
    try:
        for ch in chunks:
            insp.eat_chunk(ch)
            if queries:
                # queries made in between must not disturb anything
                insp.format_match
                insp.complete
                try:
                    insp.virtual_size
                except Exception:
                    pass
                insp.context_info
        insp.finish()
    except fi.ImageFormatError:
        return ('ImageFormatError', insp)
    except Exception as e:
        return (type(e).__name__, insp)
    return (None, insp)


def cuts(ctx, k, N):
    cs = []
    prev = 0
    for i in range(k):
        c = ctx.int('c%d' % (i + 1), 0)
        ctx.assume(AND(c >= prev, c <= N))
        cs.append(c)
        prev = c
    return cs


def chunks_of(S, cs):
    out = []
    prev = 0
    for c in cs:
        out.append(S.slice(prev, c))
        prev = c
    out.append(S.slice(prev, S.N))
    return out


def retained_ok(ctx, insp, S, label):
    """whatever is retained for a region is S[offset : offset+len(data)]"""
    for name, region in insp._capture_regions.items():
        n = h.length(region.data)
        ctx.check('%s-%s' % (label, name),
                  h.eqbytes(region.data,
                            S.slice(region.offset, region.offset + n)))


def scen_simple(ctx, M):
    """A simple (fixed-layout) format: k symbolic cuts with intermediate
    queries (run A) against one chunk (run B), plus the reference
    predicates for match / complete / size / safety."""
    fi = M.fi
    fmt = ctx.p['fmt']
    ref = F.REFS[fmt]
    cls = getattr(fi, CLS[fmt])
    N = ctx.int('N', 0, ctx.p.get('nmax', NMAX[fmt]))
    fixed = {}
    if fmt == 'iso' and ctx.p.get('iso_bs') is not None:
        bs = ctx.p['iso_bs']
        fixed = {32896: bs & 255, 32897: bs >> 8}
    S = ctx.stream('S', N, fixed=fixed, default='free')
    cs = cuts(ctx, ctx.p['cuts'], N)
    # run B first: its (content) decisions are then shared by all the
    # chunking paths of run A
    eb, B = feed(ctx, fi, cls, [S.whole()], False)
    ob = observe(ctx, fi, B) if eb is None else None
    ea, A = feed(ctx, fi, cls, chunks_of(S, cs), True)
    ctx.check('C01-rel-exception', ea == eb)
    ctx.check('C03-total-only-IFE', ea in (None, 'ImageFormatError'))
    if ea is not None or eb is not None:
        ctx.goal('rejected-by-eat_chunk')
        return (ea, eb)
    oa = observe(ctx, fi, A)
    ctx.check('C01-rel-match', oa[0] == ob[0])
    ctx.check('C01-rel-complete', oa[1] == ob[1])
    ctx.check('C01-rel-size', h.veq(oa[2], ob[2]))
    ctx.check('C01-rel-safety', oa[3] == ob[3])
    retained_ok(ctx, A, S, 'C01-retain')
    # C05: retained bytes never exceed the bound
    total = 0
    for v in A.context_info.values():
        total = total + v
    ctx.check('C05-bound', total <= ref.bound)
    # reference predicates
    m, c, vs, sc = oa
    ctx.check('C01-ref-complete', h.veq(c, ref.complete(S)))
    ctx.check('C03-match-iff-signature', h.veq(m, ref.signature(S)))
    ctx.check('C07-size', h.veq(vs, ref.size(S)) if not isinstance(
        vs, str) else False)
    # C02: fail closed
    fails = ref.failing(S) if (c and m) else {}
    if sc == 'ok':
        ctx.goal('accepted')
        ctx.check('C02-ok-needs-complete-match', AND(c, m))
        for name, cond in fails.items():
            ctx.check('C02-accepted-but-%s' % name, NOT(cond))
    elif sc == 'refused':
        ctx.goal('refused')
        ctx.check('C02-refused-iff', NOT(AND(c, m)))
    elif sc.startswith('fail:'):
        ctx.goal('failed')
        got = set(sc[5:].split(','))
        ctx.check('C02-checks-known', got <= set(ref.checks))
        for name in ref.checks:
            ctx.check('C02-check-%s' % name,
                      h.veq(name in got, fails.get(name, False)))
    else:
        ctx.check('C02-no-other-exception', False)
    if c and m:
        ctx.goal('complete-match')
    return (ea, eb, m, c, vs, sc)
