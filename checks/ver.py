"""Harnesses over oslo_utils.versionutils (C17)."""
import os
import sys

VERIF = os.path.dirname(os.path.dirname(os.path.abspath(__file__)))
sys.path.insert(0, VERIF)

from symx import core, env, h, run as R, sstr    # noqa: E402
from symx.core import AND, OR, NOT, ITE            # noqa: E402
from symx.sstr import SymStr, DecStr               # noqa: E402
from checks.strs import cat                        # noqa: E402

VU = 'oslo_utils.versionutils'


class Mods:
    pass


class StubVersion:
    """contract stub for packaging.version.Version: a total pre-order key
    and a major number, both arbitrary per distinct version string"""
    table = None          # name -> (key, major), set by the scenario

    def __init__(self, s):
        hit = None
        if isinstance(s, (str, SymStr)):
            for name in StubVersion.table:
                if len(name) == len(s) and (s == name):    # may fork
                    hit = name
                    break
        if hit is None:
            raise StubInvalid('Invalid version')
        self.key, self.major = StubVersion.table[hit]

    def __lt__(self, o):
        return self.key < o.key

    def __le__(self, o):
        return self.key <= o.key

    def __gt__(self, o):
        return self.key > o.key

    def __ge__(self, o):
        return self.key >= o.key

    def __eq__(self, o):
        return self.key == o.key

    def __ne__(self, o):
        return self.key != o.key

    __hash__ = None


class StubInvalid(ValueError):
    pass


class _FakeVersionMod:
    Version = StubVersion
    InvalidVersion = StubInvalid


class _FakePackaging:
    version = _FakeVersionMod()


def load_sym():
    ld = env.Loader(env={'packaging': _FakePackaging()})
    m = Mods()
    m.vu = ld.load(VU)
    m.sha = ld.sha
    return m


def load_real():
    m = Mods()
    m.vu = env.import_real(VU)
    return m


def dotted(ctx, comps):
    if ctx.sym:
        out = []
        for i, c in enumerate(comps):
            if i:
                out.append(ord('.'))
            out.append(DecStr(core.toint(c)))
        return SymStr(out)
    return '.'.join(str(c) for c in comps)


def lex_less(a, b):
    """a <lex b for equal-length tuples, as a condition"""
    res = False
    for x, y in reversed(list(zip(a, b))):
        res = OR(x < y, AND(x == y, res))
    return res


def scen_roundtrip(ctx, M):
    vu = M.vu
    n = ctx.p['n']
    a = [ctx.int('a%d' % i, 0, 999) for i in range(n)]
    ctx.assume(a[0] >= 1)
    if ctx.sym:
        core.ENG.allow_tokens = True
        core.ENG.str_tokens = True
    ia = vu.convert_version_to_int(tuple(a))
    # positional value, base 1000
    want = 0
    for c in a:
        want = want * 1000 + c
    ctx.check('C17-int-value', ia == want)
    s = vu.convert_version_to_str(ia)
    if ctx.sym:
        s = sstr.lift(s) if isinstance(s, str) else s
    ctx.check('C17-roundtrip', s == dotted(ctx, a))
    b = [ctx.int('b%d' % i, 0, 999) for i in range(n)]
    ctx.assume(b[0] >= 1)
    ib = vu.convert_version_to_int(tuple(b))
    ctx.check('C17-order-preserved', h.veq(ia < ib, lex_less(a, b)))
    ctx.goal('done')
    return (ia,)


SUFFIXES = ['', 'a', 'alpha', 'b', 'beta', 'rc']


def scen_fromstr(ctx, M):
    """dotted version *strings*: 1..2 symbolic digits per component, an
    optional alpha/beta/rc suffix with a symbolic digit on the last one;
    and a component with one arbitrary character (non-numeric ->
    ValueError)"""
    vu = M.vu
    n = ctx.p['n']
    DIG = frozenset(b'0123456789')
    parts = []
    vals = []
    for i in range(n):
        k = ctx.choice('len%d' % i, [1, 2])
        d = ctx.str('d%d' % i, k, DIG)
        parts.append(d)
        vals.append(sstr.parse_int(d) if ctx.sym else int(d))
    junk = ctx.p.get('junk')
    if junk == 'middle':
        # a pre-release marker on a component that is not the last one is
        # not a suffix of the version: that component is non-numeric
        suf = ctx.choice('suffix', SUFFIXES[1:])
        at = ctx.choice('at', list(range(n - 1)))
        sd = ctx.str('sd', 1, DIG)
        text = None
        for i, d in enumerate(parts):
            if i == at:
                d = cat(d, suf, sd)
            text = d if text is None else cat(text, '.', d)
    else:
        suf = ctx.choice('suffix', SUFFIXES)
        text = parts[0]
        for d in parts[1:]:
            text = cat(text, '.', d)
        if suf:
            text = cat(text, suf, ctx.str('sd', 1, DIG))
    if junk and junk != 'middle':
        bad = ctx.str('j', 1, frozenset(b'0123456789xa-. '))
        text = cat(text, '.', bad) if junk == 'component' else \
            cat(bad, text)
    try:
        r = vu.convert_version_to_int(text)
        out = 'ok'
    except ValueError:
        r, out = None, 'ValueError'
    except Exception as e:
        r, out = None, 'EXC:' + type(e).__name__
    ctx.check('C17-only-valueerror', not out.startswith('EXC'))
    if not junk:
        want = 0
        for c in vals:
            want = want * 1000 + c
        ctx.check('C17-suffix-ignored', out == 'ok' and
                  h.veq(r == want, True))
        ctx.goal('parsed')
    elif junk == 'middle':
        ctx.check('C17-marker-on-inner-component-valueerror',
                  out == 'ValueError')
        ctx.goal('rejected')
    else:
        # a component / prefix that python's int() rejects makes the whole
        # version invalid; one it accepts is just another number
        if junk == 'component':
            isnum = ctx.truth(bad.isdigit()) if ctx.sym else bad.isdigit()
            if not isnum:
                # int(' ') etc. are rejected too; '-' is rejected
                ctx.check('C17-nonnumeric-component-valueerror',
                          out == 'ValueError')
                ctx.goal('rejected')
    return (out,)


OPS = ['<', '<=', '==', '>', '>=', '!=']


def cmp_ref(op, a, b):
    return {'<': a < b, '<=': a <= b, '==': a == b, '>': a > b,
            '>=': a >= b, '!=': a != b}[op]


def scen_compat(ctx, M):
    vu = M.vu
    kr, kc = ctx.int('key_req'), ctx.int('key_cur')
    mr, mc = ctx.int('maj_req', 0), ctx.int('maj_cur', 0)
    same = ctx.truth(ctx.bool('same_major'))
    table = {'REQ': (kr, mr), 'CUR': (kc, mc)}
    if ctx.sym:
        StubVersion.table = table
        r = vu.is_compatible('REQ', 'CUR', same_major=same)
    else:
        import unittest.mock as mock
        StubVersion.table = table
        with mock.patch('packaging.version.Version', StubVersion):
            r = vu.is_compatible('REQ', 'CUR', same_major=same)
    ctx.check('C17-is-compatible',
              h.veq(r, AND(kc >= kr, OR(not same, mr == mc))))
    ctx.goal('done')
    return (ctx.truth(r),)


def scen_predicate(ctx, M):
    """VersionPredicate: 1..k comparators `<ws><op><ws>Vi<ws>` joined by
    ',' (or, malformed, by a space), operator characters symbolic"""
    vu = M.vu
    k = ctx.p['k']
    WS = frozenset(b' \t')
    OPC = frozenset(b'<>=!~')
    cand = ctx.int('key_v')
    table = {'V': (cand, 0)}
    pieces = []
    ops = []
    text = ''
    concrete = ctx.p.get('concrete_ops')
    for i in range(k):
        key = ctx.int('key_%d' % i)
        table['P%d' % i] = (key, 0)
        if concrete:
            # operators as concrete text (implementations may key tables
            # by them); repeated operators included
            op = ctx.choice('opc_%d' % i, OPS)
            piece = op + ctx.choice('sp_%d' % i, ['', ' ']) + 'P%d' % i
        else:
            nws = [0, 1] if ctx.p.get('ws', True) else [0]
            w1 = ctx.str('w1_%d' % i, ctx.choice('nw1_%d' % i, nws), WS)
            oplen = ctx.choice('oplen_%d' % i, [1, 2])
            op = ctx.str('op_%d' % i, oplen, OPC)
            w2 = ctx.str('w2_%d' % i, ctx.choice('nw2_%d' % i, nws), WS)
            w3 = ctx.str('w3_%d' % i, ctx.choice('nw3_%d' % i, nws), WS)
            piece = cat(w1, op, w2, 'P%d' % i, w3)
        ops.append(op)
        if i:
            sep = ctx.choice('sep_%d' % i, [',', ' ', ''])
            text = cat(text, sep, piece)
            pieces.append(sep)
        else:
            text = piece
    StubVersion.table = table

    def run():
        try:
            p = vu.VersionPredicate(text)
        except ValueError:
            return 'ValueError', None
        except Exception as e:
            return 'EXC:' + type(e).__name__, None
        try:
            return 'ok', p.satisfied_by('V')
        except Exception as e:
            return 'EXC:' + type(e).__name__, None
    if ctx.sym:
        out, r = run()
    else:
        import unittest.mock as mock
        with mock.patch('packaging.version.Version', StubVersion):
            out, r = run()
    # reference
    wellformed = all(s == ',' for s in pieces)
    known = []
    for op in ops:
        hit = None
        for o in OPS:
            if len(o) == len(op) and ctx.truth(op == o):
                hit = o
        known.append(hit)
    if concrete:
        ctx.goal('malformed')        # (not exercised by this variant)
    wellformed = wellformed and all(x is not None for x in known)
    # with a missing separator the version token of the previous piece
    # swallows the next piece ("P0>=" ...): still malformed unless the
    # text happens to be a single valid comparator
    if not wellformed:
        ctx.goal('malformed')
        ctx.check('C17-malformed-predicate-valueerror', out == 'ValueError')
        return (out,)
    ctx.goal('wellformed')
    ctx.check('C17-wellformed-predicate-accepted', out == 'ok')
    if out == 'ok':
        want = True
        for i, o in enumerate(known):
            want = AND(want, cmp_ref(o, cand, table['P%d' % i][0]))
        ctx.check('C17-satisfied-by-conjunction', h.veq(r, want))
    return (out,)
