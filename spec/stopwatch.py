"""Reference transition relation of StopWatch, written from the C13
statement.  A state is (state, started_at, stopped_at, duration, splits)
with splits a tuple of (elapsed, length).  Arithmetic is IEEE double (python
floats or symx SymFloat); max(0.0, x) is x when x > 0.0 else 0.0."""
from symx.core import ITE

STARTED, STOPPED = 'STARTED', 'STOPPED'


def pos(x):
    """python's max(0.0, x)"""
    return ITE(x > 0.0, x, 0.0)


def delta(a, b):
    return pos(b - a)


class Illegal(Exception):
    pass


def step(st, op, clock, arg=None, reads=None):
    """-> (new_state, result).  clock() yields the next reading.
    Raises Illegal when the call is illegal in this state.
    reads: how many readings the implementation took during this call, if
    known.  Only restart uses it: the statement fixes the restart instant as
    a clock reading taken during the call, not how many are taken, so the
    reference takes as many as the implementation (at least one) and the
    last one is the restart instant."""
    state, t0, t1, dur, splits = st
    if op in ('start', '__enter__'):
        if state == STARTED:
            return st, 'self'
        return (STARTED, clock(), None, dur, ()), 'self'
    if op in ('stop', '__exit__'):
        if state == STOPPED:
            return st, (None if op == '__exit__' else 'self')
        if state != STARTED:
            if op == '__exit__':
                return st, None
            raise Illegal()
        return (STOPPED, t0, clock(), dur, splits), \
            (None if op == '__exit__' else 'self')
    if op == 'resume':
        if state != STOPPED:
            raise Illegal()
        return (STARTED, t0, t1, dur, splits), 'self'
    if op == 'restart':
        n = 2 if state == STARTED else 1  # stop reading + start reading
        if reads is not None:
            n = max(1, reads)
        for _ in range(n - 1):
            clock()
        return (STARTED, clock(), None, dur, ()), 'self'
    if op == 'elapsed':
        if state not in (STARTED, STOPPED):
            raise Illegal()
        e = delta(t0, t1) if state == STOPPED else delta(t0, clock())
        if arg is not None:
            e = ITE(e > arg, pos(arg), e)
        return st, e
    if op == 'split':
        if state != STARTED:
            raise Illegal()
        e = delta(t0, clock())
        ln = delta(splits[-1][0], e) if splits else e
        return (state, t0, t1, dur, splits + ((e, ln),)), (e, ln)
    if op == 'leftover':
        if state != STARTED:
            raise Illegal()
        if dur is None:
            if arg:
                return st, None
            raise Illegal()
        return st, pos(dur - delta(t0, clock()))
    if op == 'expired':
        if state not in (STARTED, STOPPED):
            raise Illegal()
        if dur is None:
            return st, False
        e = delta(t0, t1) if state == STOPPED else delta(t0, clock())
        return st, e > dur
    if op == 'has_started':
        return st, state == STARTED
    if op == 'has_stopped':
        return st, state == STOPPED
    raise ValueError(op)
