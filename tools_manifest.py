"""Regenerates MANIFEST.json from the table below (run: python3 tools_manifest.py)."""
import json, os
V = os.path.dirname(os.path.abspath(__file__))
CHECKS = {
 'C01': ('bounded symbolic execution of the real inspector source with z3: inductive step for the capture engine (unbounded), run-with-symbolic-cuts vs one-chunk relational check per format',
         'Real source from /repo executed on proxy values; per path every obligation decided by z3; chunk cuts, stream length, every stream byte and the VHDX offsets are symbolic. Bounds: 1 cut quick / 2 thorough at inspector level; capture engine step is unbounded.'),
 'C02': ('bounded symbolic execution of the real safety checks against independent reference predicates (z3 decides agreement on every path)',
         'All header bytes symbolic over their full range (64 feature bits, versions, offsets, boot flags); reference predicates in spec/formats.py; GPT tables from a bounded family.'),
 'C05': ('symbolic execution with length/count/offset fields symbolic over their full width; region-length caps and retained-byte sums decided by z3',
         'Inductive capture step gives len(data) <= region length for any chunking; per inspector the region caps and context_info totals are bounded by the stated constant on every path.'),
 'C07': ('symbolic execution with the size field symbolic over its full range; virtual_size == declared size decided by z3 per path',
         'Size fields 64-bit symbolic, ISO block sizes enumerated as configurations, VHDX layouts with symbolic region/item offsets; truncated streams give 0.'),
}
CHECKS.update({
 'C03': ('bounded symbolic execution of the real InspectWrapper with all ten real inspectors over a polyglot content family; stream length and read sizes symbolic; exclusivity / raw / totality / no-revision obligations decided by z3 per path',
         'Content family = forks over signature overlays (not arbitrary bytes); lengths and read sizes are symbolic integers; allowed_formats symbolic subset. Reference signature predicates in spec/formats.py.'),
 'C06': ('bounded symbolic execution of the real InspectWrapper over stub inspectors with symbolic fault/complete/match bits per inspector and chunk, symbolic chunk sizes and uninterpreted contents',
         'All fault schedules inside the bound (m stubs x j chunks) are covered by forking on symbolic bits; stream contents are uninterpreted, sizes symbolic.'),
})
CHECKS.update({
 'C13': ('inductive step over the real StopWatch methods from an arbitrary invariant-satisfying pre-state with symbolic IEEE-double clock readings (z3 FloatingPoint), compared bit-for-bit with a reference transition relation',
         'One call of each operation from an arbitrary pre-state (covers sequences of any length if the invariant is right; the invariant is listed in the evidence). Clock readings finite, |t| <= 1e150. The clause "recorded split values are non-decreasing" additionally needs monotonicity of IEEE subtraction, which neither z3 nor cvc5 decides at binary64 (outside the claim).'),
})
CHECKS.update({
 'C04': ('symbolic execution of the real mask_password through a symbolic model of re (backtracking matcher over the tree the real re._parser produces for the patterns the repo source builds); secret characters, key letter case and digit suffix symbolic; z3 decides output == expected on every path',
         'Secret of 1..2 (thorough 3..4) symbolic characters over the rendering\'s alphabet within 0x20-0xFF; key list and renderings from spec/sanitize.py; neutral context concrete. Known findings N1 and W1 are exempted at their sites only.'),
 'C08': ('symbolic execution of the real mask_dict_password over mapping shapes with a symbolic key string (identity-hashed) and symbolic string values; key-match predicate and value masking decided by z3',
         'Shapes (depth <= 2, width 2) and value kinds are configurations; what is symbolic is the key text (reference key in any letter case, embedded, near miss, arbitrary) and string values.'),
})
CHECKS.update({
 'C14': ('symbolic execution of the real parsers on symbolic strings (per-character code-point domains), unbounded symbolic ints and symbolic flags; results compared by z3 with reference conditions built directly over the characters',
         'Strings up to 4 (thorough 6) characters over the words\' alphabet and up to 2 (3) over 0x00-0xFF; int values and bounds unbounded. is_uuid_like/generate_uuid are outside the claim (uuid internals not encoded).'),
 'C19': ('symbolic execution of the real split_path on symbolic paths; outcome compared with a reference splitter written from the statement',
         'Paths up to 6 (thorough 8) characters over {/, a, space, .}; minsegs 1..4; maxsegs None,0,min-1..min+2; rest_with_last both. split_by_commas is outside the claim (pyparsing on the value itself is not encodable).'),
})
CHECKS.update({
 'C10': ('symbolic execution of the real string_to_bytes / _extract_bytes: text characters symbolic (regex through the re model), the parsed number an opaque symbolic IEEE double; result compared bit-for-bit (z3 FloatingPoint) with an independent prefix table and base rule',
         'Text = sign + <=3 (thorough 4) magnitude chars + <=2 prefix chars + <=3 unit chars, all symbolic; float(str) is opaque (decimal->double conversion outside the claim); |m| <= 1e200.'),
})
CHECKS.update({
 'C17': ('symbolic execution of the real version helpers: integer components symbolic (linear integer arithmetic decides round trip and order preservation for all values in range), version strings with symbolic digits through the re model, PEP 440 objects replaced by a contract stub with arbitrary symbolic ordering keys',
         'Components 0..999, 1..5 of them; strings of 1..2 digits per component; predicates of 1..2 (thorough 3) comparators with symbolic operator characters and whitespace. PEP 440 parsing/ordering itself belongs to packaging (stub: arbitrary total pre-order key + major).'),
})
CHECKS.update({
 'C11': ('symbolic execution of the real validators: unbounded symbolic ints, symbolic strings through the int() and re models, scope/prefix-presence logic over contract stubs of netaddr with symbolic fault choices; verdicts and no-exception obligations decided by z3',
         'Ints unbounded; strings up to 4 (6) characters for ports/ICMP, length 16..18 for MACs, 0..18 tail characters for scopes, 0..3 (4) for CIDR tails. netaddr is a contract stub (which strings are addresses is netaddr\'s business): agreement with the standard library parser is outside the claim. Known finding K1 exempted at its site.'),
 'C15': ('symbolic execution of the real EUI-64 helpers over byte-structured symbolic integers (all 2^128 addresses, all 2^48 MACs x networks), and of parse_host_port/escape_ipv6 over symbolic hosts and ports; netaddr replaced by integer-semantics contract stubs',
         'Bit formulas checked against byte-wise references for every value; host names of 1..3 (5) symbolic characters, every port and default port. urlsplit/params are outside the claim.'),
})
CHECKS.update({
 'C20': ('symbolic execution of the real file helpers above contract stubs of the OS layer: errno, file size, read chunk size and seek offset are symbolic integers, contents uninterpreted; re-raise decisions, returned slices and hasher updates decided by z3',
         'Every errno 1..200; sizes up to 2^40 (last_bytes: num up to 2^41); checksum: size <= 4 (8) x chunk size. The real filesystem, mkstemp uniqueness and hashlib are outside the claim (stubs / streaming contract).'),
})
CHECKS.update({
 'C18': ('symbolic execution of the real match(): real pyparsing on a concrete spec skeleton, operands as placeholder literals that float() maps to symbolic IEEE doubles (z3 FloatingPoint), string values as symbolic strings; results compared with the documented operator table',
         'Numeric operators and <range-in> for all finite doubles; string operators for values up to 3 (5) characters against a concrete operand family. <all-in> and symbolic operand strings are outside the claim.'),
})
CHECKS.update({
 'C12': ('symbolic execution of the real timeutils functions above an integer-microsecond model of datetime: instants, fixed offsets, second counts, override instants and advance amounts are unbounded-range symbolic integers; the statement\'s equations are decided by z3 (linear integer arithmetic)',
         'Whole representable range at microsecond resolution, offsets in (-24h, +24h) incl. non-minute offsets, integer second counts incl. the equality boundary. parse_isotime/ISO strings, named zones, list overrides, fractional seconds and TimeFixture are outside the claim; code that goes through float seconds (timedelta.total_seconds) is not decidable here (int->double conversion of 2^58-size values).'),
})
CHECKS.update({
 'C16': ('symbolic execution of the real encodeutils functions over opaque texts with uninterpreted codecs (axiom dec(enc(t)) = t, symbolic failure bits, codec names in symbolic letter case) and of to_slug over symbolic strings through the re model and a table model of NFKD folding',
         'Codec behaviour is uninterpreted (the codecs themselves are outside the claim); to_slug for every string of up to 3 (4) characters over 0x00-0xFF.'),
})
NA = {
 'C09': 'not applicable to solver-based checking: the property observes object identity of the re-raised exception, its traceback and the interpreter\'s exception context; the only inputs are two booleans and a finite choice of handler-body shapes, so there is no value domain to make symbolic and every path would be one concrete interpreter run (enumeration, excluded as the deciding step); see DESIGN.md section 8',
}
def main():
    props = [json.loads(l) for l in open(os.path.join(V, 'properties.jsonl'))]
    checks = []
    for p in props:
        pid = p['id']
        if pid not in CHECKS:
            continue
        tech, note = CHECKS[pid]
        checks.append({
            'property_id': pid,
            'quick_cmd': 'bin/check %s --tier quick' % pid,
            'thorough_cmd': 'bin/check %s --tier thorough' % pid,
            'evidence_file': 'evidence/%s.json' % pid,
            'replay_cmd_template': 'bin/check %s --replay {path}' % pid,
            'engine': 'symx',
            'level_claimed': {'category': 'model_checking',
                              'text': 'Bounded symbolic model checking of the real code: every feasible path inside the stated bounds is explored, each obligation is discharged by an SMT query (unsat = holds for all inputs on the path, sat = concrete counterexample replayed on the real module before it is reported). Not a proof: nothing is claimed outside the bounds listed in the evidence file.',
                              'design_ref': 'DESIGN.md section 6 (%s)' % pid},
            'level_note': note + ' Trusted: z3, the symx proxies and environment models (validated per path by concrete replay on the normally imported module), the reference models in /verif/spec.',
            'technique': tech,
        })
    na = []
    for p in props:
        if p['id'] not in CHECKS:
            na.append({'property_id': p['id'], 'reason': NA.get(p['id'], 'check not built yet in this session (harness planned in DESIGN.md section 6)')})
    m = {
        'version': 1,
        'setup_cmd': 'bin/setup',
        'hooks': {'guard': 'OSLO_UTILS_VERIF', 'enable': 'none needed: the loader substitutes builtins and environment modules when it loads the source from /repo, no source change is required', 'baseline_off_cmd': 'cd /repo && /venv/bin/python -m pytest -ra -q -p no:cacheprovider --timeout=900 --continue-on-collection-errors', 'source_commits': [], 'add_only': True},
        'engines': [{'name': 'symx', 'path': 'symx/', 'serves_properties': sorted(CHECKS), 'kind_free_text': 'purpose-built symbolic executor: real /repo source exec\'d with proxy values and symbolic-aware builtins, depth-first path exploration by re-execution, z3 for every branch and obligation, concrete replay of every path and counterexample'}],
        'checks': checks,
        'not_applicable': na,
        'notes': 'Exit codes: 0 held / 1 VIOLATION (replayed on the real code) / 2 inconclusive or harness error. Known findings and fixed defects: known_findings.json. Seeded changes: seeded/.',
    }
    json.dump(m, open(os.path.join(V, 'MANIFEST.json'), 'w'), indent=1)
if __name__ == '__main__':
    main()
