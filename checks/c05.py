"""C05 - inspector memory is bounded by a constant."""
import os
import sys
sys.path.insert(0, os.path.dirname(os.path.dirname(os.path.abspath(__file__))))
from checks import common, img            # noqa: E402

H = img.harnesses()
PROPS = {'C05'}


def build_jobs(tier, seed):
    J = common.Job
    P = {'props': sorted(PROPS)}
    k = 1 if tier == 'quick' else 2
    jobs = [J(H['capture-step'], dict(P, min_length=False)),
            J(H['capture-step'], dict(P, min_length=True)),
            J(H['endcapture-step'], dict(P))]
    jobs += img.simple_jobs(J, H, PROPS, k, tier)
    jobs.append(J(H['vhdx'], dict(P, cuts=1, sigs='fixed'), split_depth=16))
    jobs.append(J(H['vhdx'], dict(P, cuts=1, sigs='fixed', mcount='sym'),
                  split_depth=16))
    jobs += img.vmdk_jobs(J, H, PROPS, tier, {'hdr', 'descnum', 'footer'})
    return jobs


def describe(tier):
    return {
        'capture engine': 'inductive step: len(data) <= region length for '
        'ordinary regions and <= n for end regions, any chunk length',
        'inspectors': 'sum(context_info.values()) <= bound after the whole '
        'stream, and every region length <= its cap, with all length / '
        'count / offset fields symbolic over their full width',
    }


ASSUME = ['as C01']

if __name__ == '__main__':
    sys.exit(common.main('C05', build_jobs, H, ASSUME, describe))
