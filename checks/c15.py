"""C15 - EUI-64, host:port helpers round-trip (urlsplit/params: outside)."""
import os
import sys
sys.path.insert(0, os.path.dirname(os.path.dirname(os.path.abspath(__file__))))
from checks import common, net            # noqa: E402
from symx import run as R                 # noqa: E402


def mk(name, f, goals=('done',)):
    hh = R.Harness(name, f, net.load_sym, net.load_real)
    hh.required_goals = goals
    return hh


H = {'mac-by-ipv6': mk('mac-by-ipv6', net.scen_mac_by_ipv6),
     'eui64': mk('eui64', net.scen_eui64),
     'hostport': mk('hostport', net.scen_hostport,
                    ('name', 'v4', 'v6', 'v6scope')),
     'scope': mk('scope', net.scen_scope)}


def build_jobs(tier, seed):
    J = common.Job
    P = {'props': ['C15']}
    return [
        J(H['mac-by-ipv6'], dict(P)),
        J(H['eui64'], dict(P)),
        J(H['hostport'], dict(P, n=3 if tier == 'quick' else 5),
          split_depth=6),
        J(H['scope'], dict(P, maxtail=6 if tier == 'quick' else 18),
          split_depth=8),
    ]


def describe(tier):
    return {
        'get_mac_addr_by_ipv6': 'every 128-bit address value (symbolic '
        'integer), against the bit formula written with div/mod',
        'get_ipv6_addr_by_EUI64': 'every 48-bit MAC x every network with '
        'prefix length <= 64 x arbitrary host bits in the textual prefix; '
        'round trip; IPv4 prefix, malformed prefix/MAC, non-string prefix',
        'parse_host_port': 'host from {name of 1..%d characters over '
        '[az09.-_], IPv4 literal, IPv6 literal, IPv6 literal with a 1..2 '
        'character scope} x every port 0..65535 x every default port' % (
            3 if tier == 'quick' else 5),
        'outside': 'urlsplit and params() (thin wrappers over urllib; a '
        'stub would decide the outcome), netaddr internals (contract stubs), '
        'prefixes longer than /64',
    }


ASSUME = ['netaddr.EUI / IPNetwork / IPAddress contract stubs with integer '
          'semantics; address literals stand for their family',
          'str(port) is a decimal-rendering atom']

if __name__ == '__main__':
    sys.exit(common.main('C15', build_jobs, H, ASSUME, describe))
