"""Reference for string_to_bytes, written from the C10 statement (own
prefix table and base rule)."""

LETTERS = 'KMGTPEZYRQ'
EXP = {l: i + 1 for i, l in enumerate(LETTERS)}


def prefixes(system):
    """-> {prefix: (base, exponent)} admitted by the unit system"""
    out = {}
    if system == 'IEC':
        for l in LETTERS:
            out[l] = (1024, EXP[l])
            out[l + 'i'] = (1024, EXP[l])
    elif system == 'SI':
        out['k'] = (1000, 1)
        for l in LETTERS[1:]:
            out[l] = (1000, EXP[l])
    elif system == 'mixed':
        for l in 'k' + LETTERS:
            e = 1 if l == 'k' else EXP[l]
            out[l] = (1000, e)
            out[l + 'i'] = (1024, e)
    return out


UNITS = {'b': 8, 'bit': 8, 'B': 1}
