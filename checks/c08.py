"""C08 - mask_dict_password masks recursively and never modifies its
argument."""
import os
import sys
sys.path.insert(0, os.path.dirname(os.path.dirname(os.path.abspath(__file__))))
from checks import common, strs           # noqa: E402
from symx import run as R                 # noqa: E402
from spec import sanitize as SZ           # noqa: E402

H = {
    'maskdict': R.Harness('maskdict', strs.scen_maskdict, strs.load_sym,
                          strs.load_real),
    'maskdict-misc': R.Harness('maskdict-misc', strs.scen_maskdict_misc,
                               strs.load_sym, strs.load_real),
}
H['maskdict'].required_goals = ('key-matched', 'key-not-matched')
H['maskdict-misc'].required_goals = ('misc',)


def build_jobs(tier, seed):
    J = common.Job
    jobs = [J(H['maskdict-misc'], {})]
    refkeys = SZ.KEYS
    values = ['str', 'int', 'none', 'list', 'bytes', 'plain']
    for shape in ('flat', 'nested', 'nested-dict', 'nested3'):
        for vk in values:
            for rk in refkeys:
                for kk in ('exact', 'embedded', 'nearmiss'):
                    if tier == 'quick' and shape != 'flat' and \
                            (kk != 'embedded' or rk != 'password'):
                        continue
                    jobs.append(J(H['maskdict'], dict(
                        shape=shape, value=vk, refkey=rk, keykind=kk)))
            jobs.append(J(H['maskdict'], dict(
                shape=shape, value=vk, keykind='free',
                klen=3 if tier == 'quick' else 5), split_depth=8))
    jobs.append(J(H['maskdict'], dict(shape='flat', value='str',
                                      keykind='exact', mask='#')))
    return jobs


def describe(tier):
    return {
        'shapes': 'flat non-dict Mapping; dict holding a Mapping; Mapping '
        'holding a Mapping; dict in dict holding a Mapping (depth 3); width 2 (one symbolic key + one '
        'concrete sibling key assumed different from it)',
        'keys': 'reference key in symbolic letter case with digit suffix; '
        'the same embedded between two arbitrary characters; near miss '
        '(last letter arbitrary); %d arbitrary characters; bytes/tuple/int '
        'keys (concrete)' % (3 if tier == 'quick' else 5),
        'values': 'string with an embedded --password secret (symbolic), '
        'arbitrary 2-character string, int, None, list, bytes',
        'outside': 'depth > 3, width > 2, two symbolic keys in one mapping',
    }


ASSUME = ['symbolic dict keys are hashed by identity; the harness assumes '
          'the symbolic key differs from its concrete sibling',
          're model as in C04']

if __name__ == '__main__':
    sys.exit(common.main('C08', build_jobs, H, ASSUME, describe))
