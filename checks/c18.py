"""C18 - the spec matcher implements its documented operator table."""
import os
import sys
sys.path.insert(0, os.path.dirname(os.path.dirname(os.path.abspath(__file__))))
from checks import common, specs          # noqa: E402
from symx import run as R                 # noqa: E402


def mk(name, f, goals=('done',)):
    hh = R.Harness(name, f, specs.load_sym, specs.load_real)
    hh.required_goals = goals
    return hh


H = {'numeric': mk('numeric', specs.scen_numeric),
     'range': mk('range', specs.scen_range, ('range', 'inverted')),
     'string': mk('string', specs.scen_string)}


def build_jobs(tier, seed):
    J = common.Job
    jobs = [J(H['numeric'], dict(op=op)) for op in specs.NUM]
    jobs.append(J(H['range'], {}))
    n = 3 if tier == 'quick' else 5
    for op in list(specs.SOPS) + ['<in>', '<or>', 'plain']:
        jobs.append(J(H['string'], dict(op=op, n=n), split_depth=6))
    return jobs


def describe(tier):
    return {
        'numeric operators': 'value and operand are arbitrary finite '
        'doubles (placeholder literals mapped by float() to symbolic '
        'doubles): every pair, equal and adjacent values included; real '
        'pyparsing parses the concrete skeleton; extra whitespace variants',
        '<range-in>': 'all four bracket combinations x all triples of '
        'finite doubles, inverted bounds -> TypeError',
        'string operators, <in>, <or>, no operator': 'value: every string '
        'of up to %d characters over [abcAB12. ]; operands from a concrete '
        'family' % (3 if tier == 'quick' else 5),
        'outside': '<all-in> (ast.literal_eval of the value), symbolic '
        'operand strings, NaN/infinite numbers',
    }


ASSUME = ['float(str) of an operand is an opaque finite double',
          'pyparsing is executed for real (concrete spec text)']

if __name__ == '__main__':
    sys.exit(common.main('C18', build_jobs, H, ASSUME, describe))
