"""Reference data for mask_password / mask_dict_password, written from the
C04 / C08 statements (own copy of the key list: a key dropped from the code
is a disagreement, not a silently followed edit)."""

KEYS = ['adminpass', 'admin_pass', 'password', 'admin_password',
        'auth_token', 'new_pass', 'auth_password', 'secret_uuid', 'secret',
        'sys_pswd', 'token', 'configdrive', 'chappassword', 'encrypted_key',
        'private_key', 'fernetkey', 'sslkey', 'passphrase',
        'cephclusterfsid', 'octaviaheartbeatkey', 'rabbitcookie',
        'cephmanilaclientkey', 'pacemakerremoteauthkey', 'designaterndckey',
        'cephadminkey', 'heatauthencryptionkey', 'cephclientkey',
        'keystonecredential', 'barbicansimplecryptokek', 'cephrgwkey',
        'swifthashsuffix', 'migrationsshkey', 'cephmdskey', 'cephmonkey',
        'chapsecret']
assert len(KEYS) == 35

# renderings: (name, before-key, between key and value, after value,
#              value alphabet class)
#  'bare'   : printable, no whitespace, no quotes
#  'quoted' : printable incl. space, no quotes
#  'xml'    : printable incl. space, no '<'
RENDERINGS = [
    ('bare-eq', '', '=', '', 'bare'),
    ('bare-eq-spaces', '', ' = ', '', 'bare'),
    ('dq-eq', '', '="', '"', 'quoted'),
    ('sq-eq', '', " = '", "'", 'quoted'),
    ('json-dq', '"', '": "', '"', 'quoted'),
    ('dict-sq', "'", "': '", "'", 'quoted'),
    ('dict-u', "u'", "': u'", "'", 'quoted'),
    ('xml', '<', '>', '</%(key)s>', 'xml'),
    ('dashdash', '--', ' ', '', 'bare-noeq'),
    ('key-sq', '', " '", "'", 'quoted'),
    ('key-dq', '', ' "', '"', 'quoted'),
    ('list-flag', "'", "', '--flag', '", "'", 'quoted'),
    ('cmd-flag', '', ' --flag ', '', 'bare'),
    ('cmd-f', '', ' -f ', '', 'bare'),
]

from symx.sstr import ALPHA as _ALPHA
PRINTABLE = frozenset(c for c in _ALPHA if c >= 0x20 and chr(c).isprintable())
SPACE = frozenset(c for c in _ALPHA if chr(c).isspace())
QUOTES = frozenset(map(ord, '\'"'))
ALPHABET = {
    'bare': PRINTABLE - SPACE - QUOTES,
    'bare-noeq': PRINTABLE - SPACE - QUOTES,   # '=' is known finding N1
    'quoted': PRINTABLE - QUOTES,
    'xml': PRINTABLE - frozenset([ord('<')]),
}
