"""C03 - format detection is exclusive, conservative about raw, total."""
import os
import sys
sys.path.insert(0, os.path.dirname(os.path.dirname(os.path.abspath(__file__))))
from checks import common, img            # noqa: E402

H = img.harnesses()
PROPS = {'C03'}


def build_jobs(tier, seed):
    J = common.Job
    P = {'props': sorted(PROPS)}
    jobs = []
    magics = [m for m, _ in img.MAGICS0]
    ov = 'single' if tier == 'quick' else 'all'
    novhdx = [n for n in ('raw',) + img.NONRAW if n != 'vhdx']
    for m in magics:
        jobs.append(J(H['detect'], dict(P, magic=m, read=4096, overlays=ov),
                      split_depth=8))
        jobs.append(J(H['detect'], dict(P, magic=m, read=4096, small_n=True,
                                        overlays='single')))
    for m in ('none', 'qcow2', 'vmdk'):
        jobs.append(J(H['detect'], dict(P, magic=m, read=4096, overlays=ov,
                                        allowed='sym', nmin=33000),
                      split_depth=8))
        jobs.append(J(H['detect-file'], dict(P, magic=m, overlays=ov),
                      split_depth=8))
        # without vhdx every inspector decides by 34 KiB: early decisions
        jobs.append(J(H['detect'], dict(P, magic=m, read=4096, overlays=ov,
                                        allowed=novhdx, nmin=30000),
                      split_depth=8))
    jobs.append(J(H['detect'], dict(P, magic='vmdk', vmdk_ok=True,
                                    read=4096, overlays=ov), split_depth=8))
    # arbitrary bytes at the MBR signature and the FAT look-alike positions
    jobs.append(J(H['detect'], dict(P, magic='none', read=4096,
                                    overlays='single',
                                    sym_cells=[0x10, 0x15, 510, 511],
                                    nmin=33000), split_depth=10))
    # a well-formed VHDX read in large reads of symbolic size: decisions
    # reported after a read must survive the following reads
    jobs.append(J(H['detect'], dict(P, magic='vhdx', vhdx_image=True,
                                    read='sym', max_sym_reads=6,
                                    rsize_min=65536, rsize_max=1 << 20,
                                    overlays='single',
                                    nmin=320 * 1024 + 65536 + 8,
                                    nmax=320 * 1024 + 65536 + 4096),
                  split_depth=8))
    # text background (the VMDK inspector takes its text-descriptor branch)
    # with one arbitrary byte after the first sector
    jobs.append(J(H['detect'], dict(P, magic='none', read=4096,
                                    overlays='single', default=0x61,
                                    sym_cells=[600], nmin=4096,
                                    nmax=9000)))
    if tier == 'thorough':
        for m in magics:
            jobs.append(J(H['detect'], dict(P, magic=m, read='sym',
                                            overlays='single',
                                            max_sym_reads=4),
                          split_depth=10))
            jobs.append(J(H['detect'], dict(P, magic=m, read=4096,
                                            overlays='single',
                                            allowed='sym'), split_depth=10))
            jobs.append(J(H['detect-file'], dict(P, magic=m, overlays='all'),
                          split_depth=8))
        # arbitrary bytes at one group of signature positions at a time
        for cells in ([0, 1, 2, 3], [0x40, 0x41, 0x42, 0x43],
                      [0x10, 0x15, 510, 511],
                      [32768, 32769, 32770, 32771, 32772, 32773]):
            jobs.append(J(H['detect'], dict(P, magic='none', read=4096,
                                            overlays='single',
                                            sym_cells=cells, nmin=33000),
                          split_depth=10))
        jobs.append(J(H['detect'], dict(P, magic='vhdx', regi=True,
                                        read=65536, nmin=200 * 1024,
                                        nmax=300 * 1024, overlays='single'),
                      split_depth=8))
    return jobs


def describe(tier):
    return {
        'content family': 'one offset-0 magic out of {none, qcow2, qed, vhd, '
        'vhdx, vmdk, luks, junk} x VDI magic present/absent x MBR signature '
        'absent/present/present with FAT look-alike bytes x ISO descriptor '
        '{absent, CD001, NSR02, near miss} over a zero background (choices '
        'are forks of the exploration)',
        'symbolic': 'stream length in [512, 40960] (plus the concrete small '
        'lengths 0,3,4,8,63,64,100,511), read size 4096 (thorough: symbolic '
        '512..65536 with at most 4 non-empty reads), allowed_formats = all, or a symbolic subset over '
        '{raw, the offset-0 format, gpt, iso}',
        'no-revision': 'format sampled after every read',
        'thorough': 'additionally arbitrary (symbolic) bytes at one group '
        'of signature positions at a time: offset 0-3, the VDI magic, the '
        'MBR signature + FAT bytes, the ISO descriptor',
        'outside': 'arbitrary bytes at all signature positions at once (the '
        'per-inspector harnesses of C01/C02 cover every byte symbolic per '
        'format); VMDK text-descriptor mode (known finding F1)',
    }


ASSUME = ['signature predicates in /verif/spec/formats.py + vhdxfile/KDMV',
          'as C01']

if __name__ == '__main__':
    sys.exit(common.main('C03', build_jobs, H, ASSUME, describe))
