"""C04 - mask_password hides every supported secret and changes nothing
else."""
import os
import random
import sys
sys.path.insert(0, os.path.dirname(os.path.dirname(os.path.abspath(__file__))))
from checks import common, strs           # noqa: E402
from symx import run as R                 # noqa: E402
from spec import sanitize as SZ           # noqa: E402

H = {
    'mask': R.Harness('mask', strs.scen_mask, strs.load_sym, strs.load_real),
    'mask-multi': R.Harness('mask-multi', strs.scen_mask_multi,
                            strs.load_sym, strs.load_real),
    'mask-mixed': R.Harness('mask-mixed', strs.scen_mask_mixed,
                            strs.load_sym, strs.load_real),
    'mask-twice': R.Harness('mask-twice', strs.scen_mask_twice,
                            strs.load_sym, strs.load_real),
    'mask-overlap': R.Harness('mask-overlap', strs.scen_mask_overlap,
                              strs.load_sym, strs.load_real),
    'nokey': R.Harness('nokey', strs.scen_nokey, strs.load_sym,
                       strs.load_real),
}
H['mask'].required_goals = ('masked',)
H['nokey'].required_goals = ('unchanged',)


def build_jobs(tier, seed):
    J = common.Job
    jobs = []
    keys = list(SZ.KEYS)
    if tier == 'quick':
        rnd = random.Random(seed)
        pick = [keys[0], keys[-1], 'password', 'token'] + rnd.sample(keys, 6)
        keys = sorted(set(pick), key=SZ.KEYS.index)
        n = 2
    else:
        n = 3
    for k in keys:
        for r in SZ.RENDERINGS:
            jobs.append(J(H['mask'], dict(key=k, rendering=r[0], n=n)))
    for r in SZ.RENDERINGS:
        jobs.append(J(H['mask-multi'], dict(key='password', rendering=r[0])))
        jobs.append(J(H['mask'], dict(key='secret', rendering=r[0], n=1,
                                      mask='X')))
    mixed = ['dq-eq', 'bare-eq', 'xml', 'key-sq', 'cmd-flag', 'json-dq']
    for a in mixed:
        for b in mixed:
            if a != b:
                jobs.append(J(H['mask-mixed'], dict(
                    key='password', renderings=[a, b])))
    for r in ('bare-eq', 'json-dq', 'xml', 'dashdash'):
        jobs.append(J(H['mask-twice'], dict(key='password', rendering=r)))
    # (not XML: there the tag name has to be the key itself)
    for r in ('bare-eq', 'dq-eq', 'json-dq', 'dict-sq'):
        jobs.append(J(H['mask-overlap'], dict(rendering=r)))
    jobs.append(J(H['nokey'], dict(n=5 if tier == 'quick' else 6),
                  split_depth=8))
    if tier == 'thorough':
        for r in SZ.RENDERINGS:
            jobs.append(J(H['mask'], dict(key='password', rendering=r[0],
                                          n=4), split_depth=10))
    return jobs


def describe(tier):
    return {
        'keys': 'all 35 reference keys' if tier == 'thorough' else
        'first, last, password, token + 6 chosen by VERIF_SEED',
        'key spelling': 'every letter in symbolic case (2^len spellings), '
        'digit suffix in {none, 7, 42}',
        'renderings': [r[0] for r in SZ.RENDERINGS],
        'secret': 'length 1..%d, every character symbolic over the '
        'rendering\'s value alphabet inside 0x20-0xFF (printable; no '
        'whitespace/quotes for bare renderings, no quotes for quoted ones, '
        'no < for XML)' % (2 if tier == 'quick' else 3),
        'mask': "'***' and 'X' (an empty mask makes masked text "
        "indistinguishable from 'key= next-word', so idempotence is not "
        "meaningful for it)",
        'no-key clause': 'every message of up to %d arbitrary characters '
        '(0x00-0xFF) containing no reference key' % (
            5 if tier == 'quick' else 6),
        'outside': 'secrets longer than the bound, code points above 0xFF, '
        'other surrounding text than the neutral context',
    }


ASSUME = ['re model (backtracking matcher over the real re._parser tree), '
          'validated per path by replay on the real re',
          'reference key list and renderings in /verif/spec/sanitize.py']

if __name__ == '__main__':
    sys.exit(common.main('C04', build_jobs, H, ASSUME, describe))
