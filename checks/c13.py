"""C13 - StopWatch obeys its state machine under every call sequence."""
import os
import sys
sys.path.insert(0, os.path.dirname(os.path.dirname(os.path.abspath(__file__))))
from checks import common                 # noqa: E402
from symx import core, env, h, run as R   # noqa: E402
from symx.core import AND, OR, NOT, ITE, same_float, SymFloat  # noqa: E402
from spec import stopwatch as SW          # noqa: E402

TU = 'oslo_utils.timeutils'


class Mods:
    pass


def load_sym():
    ld = env.Loader()
    m = Mods()
    m.tu = ld.load(TU)
    m.sha = ld.sha
    return m


def load_real():
    m = Mods()
    m.tu = env.import_real(TU)
    return m


OPS = ('start', 'stop', 'resume', 'restart', 'split', 'elapsed',
       'elapsed-max', 'leftover', 'leftover-none', 'expired', '__enter__',
       '__exit__', 'has_started', 'has_stopped')
BIG = 1e150


def feq(a, b):
    """observational equality of two float-or-None values"""
    if a is None or b is None:
        return a is None and b is None
    if isinstance(a, (SymFloat, float)) or isinstance(b, (SymFloat, float)):
        return same_float(a, b) if isinstance(a, SymFloat) or isinstance(
            b, SymFloat) else (a == b and str(a) == str(b))
    return a == b


def snapshot(w):
    return (w._state, w._started_at, w._stopped_at, w._duration,
            tuple((s.elapsed, s.length) for s in w._splits))


def state_eq(a, b):
    if a[0] != b[0] or len(a[4]) != len(b[4]):
        return False
    cs = [feq(a[1], b[1]), feq(a[2], b[2]), feq(a[3], b[3])]
    for (e1, l1), (e2, l2) in zip(a[4], b[4]):
        cs += [feq(e1, e2), feq(l1, l2)]
    return AND(*cs)


def fl(ctx, name):
    v = ctx.float(name)
    ctx.assume(AND(v >= -BIG, v <= BIG))
    return v


def build(ctx, tu, monotone):
    """an arbitrary pre-state satisfying the invariant"""
    state = ctx.p['state']
    dur = fl(ctx, 'dur') if ctx.p.get('duration') else None
    if dur is not None:
        ctx.assume(dur >= 0.0)
    w = tu.StopWatch(dur)
    if state is None:
        return w
    t0 = fl(ctx, 't0')
    w._started_at = t0
    w._state = state
    if state == 'STOPPED' or ctx.p.get('stale_stop'):
        t1 = fl(ctx, 't1')
        if monotone:
            ctx.assume(t1 >= t0)
        w._stopped_at = t1
    n = ctx.p.get('splits', 0)
    sp = []
    prev = None
    last = t0
    for i in range(n):
        # every recorded split is the clock distance from the start to
        # some past reading s_i
        s_i = fl(ctx, 's%d' % i)
        if monotone:
            ctx.assume(s_i >= last)
        e = SW.delta(t0, s_i)
        ln = SW.delta(prev, e) if prev is not None else e
        sp.append(tu.Split(e, ln))
        prev = e
        last = s_i
    w._splits = tuple(sp)
    w._last_reading = last
    # the pre-state is written into private attributes: make sure the
    # implementation still keeps its state there, otherwise the harness
    # cannot be applied (inconclusive, not a violation)
    if w.has_started() != (state == 'STARTED') or \
            w.has_stopped() != (state == 'STOPPED') or \
            len(w.splits) != n:
        raise core.Unsupported('StopWatch no longer keeps its state in '
                               '_state/_started_at/_stopped_at/_splits')
    return w


def scen_step(ctx, M):
    """one call of one StopWatch method from an arbitrary invariant-
    satisfying pre-state with arbitrary clock readings"""
    tu = M.tu
    op = ctx.p['op']
    monotone = ctx.p.get('monotone', True)
    readings = [fl(ctx, 'now%d' % i) for i in range(2)]
    used = [0]

    def clock():
        r = readings[used[0]]
        used[0] += 1
        return r
    saved = tu.now
    tu.now = clock
    try:
        w = build(ctx, tu, monotone)
        if monotone and w._started_at is not None:
            lo = w._started_at
            if w._state == 'STOPPED':
                lo = w._stopped_at
            ctx.assume(readings[0] >= lo)
            if w._splits:
                ctx.assume(readings[0] >= w._last_reading)
            ctx.assume(readings[1] >= readings[0])
        pre = snapshot(w)
        arg = None
        meth = op
        if op == 'elapsed-max':
            arg = fl(ctx, 'maximum')
            meth = 'elapsed'
        elif op == 'leftover-none':
            arg = True
            meth = 'leftover'
        elif op == 'leftover':
            arg = False
        try:
            if meth == 'elapsed' and arg is not None:
                res = w.elapsed(arg)
            elif meth == 'leftover':
                res = w.leftover(return_none=arg)
            elif meth == '__exit__':
                res = w.__exit__(None, None, None)
            else:
                res = getattr(w, meth)()
            raised = None
        except RuntimeError:
            res, raised = None, 'RuntimeError'
        except Exception as e:
            res, raised = None, type(e).__name__
        post = snapshot(w)
        n_impl = used[0]
    finally:
        tu.now = saved
    # reference
    used[0] = 0
    try:
        want_state, want = SW.step(pre, meth, clock, arg, reads=n_impl)
        illegal = False
    except SW.Illegal:
        illegal = True
    if illegal:
        ctx.goal('illegal')
        ctx.check('C13-illegal-raises-RuntimeError',
                  raised == 'RuntimeError')
        ctx.check('C13-illegal-leaves-state', state_eq(pre, post))
        return (raised,)
    ctx.goal('legal')
    ctx.check('C13-legal-no-exception', raised is None)
    if raised is not None:
        return (raised,)
    ctx.check('C13-transition', state_eq(want_state, post))
    ctx.check('C13-clock-reads', n_impl == used[0])
    if want == 'self':
        ctx.check('C13-returns-self', res is w)
    elif meth == 'split':
        ctx.check('C13-split-result', AND(feq(res.elapsed, want[0]),
                                          feq(res.length, want[1])))
        ctx.check('C13-split-nonnegative', AND(res.elapsed >= 0.0,
                                               res.length >= 0.0))
        # NOTE: "recorded elapsed values are non-decreasing" additionally
        # needs monotonicity of IEEE subtraction, which neither z3 nor cvc5
        # decides at binary64 within minutes (half precision: 18 s); the
        # code-level part - the split records exactly max(0, now - start) -
        # is the obligation above.
    elif meth in ('elapsed', 'leftover') and want is not None:
        ctx.check('C13-value', feq(res, want))
        ctx.check('C13-never-negative', res >= 0.0)
        if meth == 'elapsed' and arg is not None:
            ctx.check('C13-not-above-maximum',
                      OR(arg < 0.0, res <= arg))
    elif meth == 'expired':
        ctx.check('C13-expired', h.veq(res, want) if not isinstance(
            want, bool) or not isinstance(res, bool) else res == want)
    else:
        ctx.check('C13-result', res == want if not isinstance(
            want, core.SymBool) else h.veq(res, want))
    return (raised,)


def scen_ctor(ctx, M):
    tu = M.tu
    d = ctx.float('d')
    try:
        w = tu.StopWatch(d)
        ok = True
    except ValueError:
        ok = False
    ctx.check('C13-negative-duration-rejected', h.veq(ok, NOT(d < 0.0)))
    if ok:
        ctx.check('C13-initial-state',
                  snapshot(w)[0] is None and w._splits == ())
    return (ok,)


def scen_seq(ctx, M):
    """every call sequence of length k from a freshly constructed watch
    (operations chosen by forks, symbolic monotone clock): each step agrees
    with the reference, and every state reached satisfies the invariant
    the inductive harness starts from (so that invariant is not too
    strong)"""
    tu = M.tu
    k = ctx.p['k']
    readings = [fl(ctx, 'now%d' % i) for i in range(2 * k)]
    for a, b in zip(readings, readings[1:]):
        ctx.assume(b >= a)
    used = [0]

    def clock():
        r = readings[used[0]]
        used[0] += 1
        return r
    saved = tu.now
    tu.now = clock
    trace = []
    try:
        dur = fl(ctx, 'dur') if ctx.p.get('duration') else None
        if dur is not None:
            ctx.assume(dur >= 0.0)
        w = tu.StopWatch(dur)
        ref = snapshot(w)
        for step in range(k):
            op = ctx.choice('op%d' % step, SEQ_OPS)
            start_used = used[0]
            try:
                if op == 'leftover-none':
                    w.leftover(return_none=True)
                elif op == '__exit__':
                    w.__exit__(None, None, None)
                else:
                    getattr(w, op)()
                raised = None
            except RuntimeError:
                raised = 'RuntimeError'
            n_impl = used[0] - start_used
            used[0] = start_used
            meth = 'leftover' if op == 'leftover-none' else op
            try:
                ref, _res = SW.step(ref, meth, clock,
                                    True if op == 'leftover-none' else None,
                                    reads=n_impl)
                illegal = False
            except SW.Illegal:
                illegal = True
                used[0] = start_used + n_impl
            trace.append(op)
            ctx.check('C13-seq-legality', (raised is not None) == illegal)
            ctx.check('C13-seq-state', state_eq(ref, snapshot(w)))
            # the invariant of the inductive harness holds in every
            # reachable state
            st = snapshot(w)
            if st[0] is None:
                ctx.check('C13-inv-initial', st[1] is None and st[4] == ())
            elif st[0] == 'STARTED':
                ctx.check('C13-inv-started', st[1] is not None)
            else:
                ctx.check('C13-inv-stopped',
                          st[1] is not None and st[2] is not None and
                          h.veq(st[2] >= st[1], True))
            for (e_, l_) in st[4]:
                ctx.check('C13-inv-split-nonneg', AND(e_ >= 0.0, l_ >= 0.0))
    finally:
        tu.now = saved
    ctx.goal('done')
    return (tuple(trace),)


SEQ_OPS = ('start', 'stop', 'resume', 'restart', 'split', 'elapsed',
           'leftover-none', 'expired', '__exit__')

H = {'step': R.Harness('step', scen_step, load_sym, load_real),
     'seq': R.Harness('seq', scen_seq, load_sym, load_real),
     'ctor': R.Harness('ctor', scen_ctor, load_sym, load_real)}
H['step'].required_goals = ('legal', 'illegal')
H['seq'].required_goals = ('done',)


def build_jobs(tier, seed):
    J = common.Job
    jobs = [J(H['ctor'], {})]
    # length 3 and more runs into IEEE-subtraction monotonicity queries
    # that z3 does not decide (timeouts): sequences stay at length 2, the
    # inductive step carries the any-length argument
    jobs.append(J(H['seq'], dict(k=2, duration=True), split_depth=4))
    if tier == 'thorough':
        jobs.append(J(H['seq'], dict(k=2, duration=False), split_depth=4))
    for state in (None, 'STARTED', 'STOPPED'):
        for op in OPS:
            for dur in (False, True):
                if not dur and op not in ('leftover', 'leftover-none',
                                          'expired'):
                    # duration only matters to leftover/expired
                    continue_ = False
                cfgs = [dict(state=state, op=op, duration=dur, splits=0)]
                if state == 'STARTED':
                    cfgs.append(dict(state=state, op=op, duration=dur,
                                     splits=2, stale_stop=True))
                    if tier == 'thorough':
                        cfgs.append(dict(state=state, op=op, duration=dur,
                                         splits=1))
                if state == 'STOPPED':
                    cfgs.append(dict(state=state, op=op, duration=dur,
                                     splits=2))
                for c in cfgs:
                    jobs.append(J(H['step'], c))
                    if tier == 'thorough' or op in ('elapsed', 'split',
                                                    'elapsed-max'):
                        jobs.append(J(H['step'], dict(c, monotone=False)))
    return jobs


def describe(tier):
    return {
        'inductive step': 'one call of each of 14 operations (the eight '
        'methods, elapsed(maximum), leftover(return_none), context-manager '
        'protocol, has_started/has_stopped) from an arbitrary pre-state '
        'satisfying the invariant: state in {None, STARTED, STOPPED}, '
        'started/stopped instants, duration None or >= 0, 0 or 2 splits '
        '(thorough: also 1); covers call sequences of any length',
        'sequences': 'additionally every call sequence of length <= %d over '
        '{start, stop, resume, restart, split, elapsed, leftover, expired, '
        '__exit__} from the constructor with a symbolic monotone clock: '
        'agreement with the reference at every step and the inductive '
        'invariant in every reachable state' % 2,
        'clock': 'each now() call returns a fresh symbolic IEEE double, '
        'finite, |t| <= 1e150; monotone (non-decreasing) and, for the '
        'never-negative clauses, arbitrary (clock may go backwards)',
        'arithmetic': 'z3 FloatingPoint(11,53), round-nearest-even; '
        'results compared bit-for-bit',
    }


ASSUME = ['invariant: STARTED => started_at set; STOPPED => both instants '
          'set; split lengths are the successive max(0, difference)s',
          'clock readings and durations finite, magnitude <= 1e150 (no '
          'overflow to infinity)',
          'timeutils.now is replaced by the symbolic clock']

if __name__ == '__main__':
    sys.exit(common.main('C13', build_jobs, H, ASSUME, describe))
