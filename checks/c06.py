"""C06 - InspectWrapper is a transparent pipe that isolates faults."""
import os
import sys
sys.path.insert(0, os.path.dirname(os.path.dirname(os.path.abspath(__file__))))
from checks import common, img            # noqa: E402

H = img.harnesses()
PROPS = {'C06'}


def build_jobs(tier, seed):
    J = common.Job
    P = {'props': sorted(PROPS)}
    jobs = []
    sizes = [(2, 2), (2, 3), (3, 2)] if tier == 'quick' else \
        [(2, 2), (2, 3), (3, 2), (3, 3), (2, 4), (4, 2), (3, 4)]
    for m, j in sizes:
        for mode in ('file', 'iter'):
            jobs.append(J(H['pipe'], dict(P, stubs=m, chunks=j, mode=mode),
                          split_depth=8 if m * j > 4 else None))
    return jobs


def describe(tier):
    return {
        'stubs': 'm real FileInspector subclasses named vhd, vhdx, qcow2 '
        'replace ALL_FORMATS; per stub and chunk a symbolic fault bit, '
        'complete flag and match flag (all schedules inside the bound)',
        'bound': '(m stubs, chunks) = %s; file-like and iterator sources; '
        'expected_format ranges over None and every stub name; stream '
        'contents uninterpreted, chunk sizes symbolic (empty chunks '
        'included)' % ('(2,2),(2,3),(3,2)' if tier == 'quick' else
            '(2,2),(2,3),(3,2),(3,3),(2,4),(4,2),(3,4)'),
        'outside': 'allowed_formats subsets (covered by C03), genuine parser '
        'errors of the real inspectors (C03 only-ImageFormatError clause)',
    }


ASSUME = ['stub inspectors stand in for the real ones; the wrapper code '
          'is the real source', 'as C01']

if __name__ == '__main__':
    sys.exit(common.main('C06', build_jobs, H, ASSUME, describe))
