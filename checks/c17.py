"""C17 - version helpers preserve ordering and PEP 440 semantics (PEP 440
itself is packaging's: stubbed by contract)."""
import os
import sys
sys.path.insert(0, os.path.dirname(os.path.dirname(os.path.abspath(__file__))))
from checks import common, ver            # noqa: E402
from symx import run as R                 # noqa: E402


def mk(name, f, goals):
    hh = R.Harness(name, f, ver.load_sym, ver.load_real)
    hh.required_goals = goals
    return hh


H = {
    'roundtrip': mk('roundtrip', ver.scen_roundtrip, ('done',)),
    'fromstr': mk('fromstr', ver.scen_fromstr, ('parsed',)),
    'compat': mk('compat', ver.scen_compat, ('done',)),
    'predicate': mk('predicate', ver.scen_predicate,
                    ('wellformed', 'malformed')),
}


def build_jobs(tier, seed):
    J = common.Job
    jobs = []
    for n in (1, 2, 3, 4, 5):
        jobs.append(J(H['roundtrip'], dict(n=n)))
    for n in ((1, 2, 3) if tier == 'quick' else (1, 2, 3, 4, 5)):
        jobs.append(J(H['fromstr'], dict(n=n), split_depth=6))
        jobs.append(J(H['fromstr'], dict(n=n, junk='component'),
                      split_depth=6))
    for n in ((2, 3) if tier == 'quick' else (2, 3, 4)):
        jobs.append(J(H['fromstr'], dict(n=n, junk='middle'),
                      split_depth=6))
    jobs.append(J(H['compat'], {}))
    for k in (1, 2):
        jobs.append(J(H['predicate'], dict(k=k), split_depth=8))
    if tier == 'thorough':
        # three comparators: operator characters symbolic, no whitespace
        jobs.append(J(H['predicate'], dict(k=3, ws=False), split_depth=10))
    jobs.append(J(H['predicate'], dict(k=2 if tier == 'quick' else 3,
                                       concrete_ops=True), split_depth=6))
    return jobs


def describe(tier):
    return {
        'convert_version_to_int/str': 'tuples of 1..5 symbolic components '
        'in 0..999 (first >= 1): positional value, round trip through the '
        'decimal renderings, order preservation for two symbolic tuples of '
        'equal length (linear integer arithmetic)',
        'strings': 'components of 1..2 symbolic digits, optional a/alpha/b/'
        'beta/rc suffix with a symbolic digit; an extra component of one '
        'arbitrary character',
        'is_compatible / VersionPredicate': 'packaging.version.Version is a '
        'contract stub (arbitrary integer ordering key and major per '
        'version); operators as 1..2 symbolic characters over <>=!~, '
        'optional symbolic whitespace, 1..%d comparators joined by comma / '
        'space / nothing (three comparators without the symbolic whitespace)' % (
            2 if tier == 'quick' else 3),
        'outside': 'PEP 440 parsing and ordering (packaging), tuple inputs '
        'with non-integer components',
    }


ASSUME = ['packaging.version.Version contract stub: total pre-order key + '
          'major, arbitrary per version string',
          'str(int) is a decimal-rendering atom, inverse of int() by '
          'construction', 're model as in C04']

if __name__ == '__main__':
    sys.exit(common.main('C17', build_jobs, H, ASSUME, describe))
