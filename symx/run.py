"""Harness runner: one scenario function serves the symbolic exploration
(SymCtx) and the concrete replay on the normally imported real module
(ConcCtx).  Per path: obligations are discharged by z3, then a model of the
path is concretised and the scenario is re-run concretely on the real code
(witness); counterexamples are replayed the same way before being reported.
"""
import json
import os
import sys
import time
import traceback
import hashlib
import z3

from . import core
from .core import (Engine, set_engine, SymInt, SymBool, SymFloat, Unsupported,
                   EngineError, PathAbort, Stop, tobool, toint, wrapint,
                   wrapbool, AND, OR, NOT)
from .sbytes import SymBytes, Stream, asbytes
from .sstr import SymStr, SymChar, DecStr, ALPHA

VERIF = os.path.dirname(os.path.dirname(os.path.abspath(__file__)))


# ------------------------------------------------------------ evaluation
def evaluate(x, model):
    """symbolic observation -> concrete python value under `model`"""
    if isinstance(x, SymInt):
        return model.eval(x.t, model_completion=True).as_long()
    if isinstance(x, SymBool):
        return z3.is_true(model.eval(x.t, model_completion=True))
    if isinstance(x, SymFloat):
        return fp_to_py(model.eval(x.t, model_completion=True))
    if isinstance(x, SymBytes):
        return x.concretize(model)
    if isinstance(x, (SymStr, DecStr)):
        return x.concrete(model)
    if isinstance(x, z3.BoolRef):
        return z3.is_true(model.eval(x, model_completion=True))
    if isinstance(x, z3.ArithRef):
        return model.eval(x, model_completion=True).as_long()
    if isinstance(x, tuple):
        return tuple(evaluate(i, model) for i in x)
    if isinstance(x, list):
        return [evaluate(i, model) for i in x]
    if isinstance(x, dict):
        return {k: evaluate(v, model) for k, v in x.items()}
    if isinstance(x, str) and '' in x:
        from .sstr import lift
        return lift(x).concrete(model)
    return x


def fp_to_py(v):
    r = core.wrapfloat(v)
    if isinstance(r, SymFloat):
        raise EngineError('cannot evaluate float %s' % v)
    return r


def jsonable(x):
    if isinstance(x, bytes):
        return {'hex': x.hex()} if len(x) <= 256 else \
            {'hex_head': x[:64].hex(), 'len': len(x),
             'sha256': hashlib.sha256(x).hexdigest()}
    if isinstance(x, float):
        return {'float': repr(x)}
    if isinstance(x, (tuple, list)):
        return [jsonable(i) for i in x]
    if isinstance(x, dict):
        return {str(k): jsonable(v) for k, v in x.items()}
    if isinstance(x, (int, str, bool)) or x is None:
        return x
    return repr(x)


def enc_inputs(inp):
    """inputs dict -> json (bytes as hex, floats as repr)"""
    out = {}
    for k, v in inp.items():
        if isinstance(v, bytes):
            out[k] = {'b': v.hex()}
        elif isinstance(v, float):
            out[k] = {'f': v.hex()}
        elif isinstance(v, (list, tuple)):
            out[k] = {'l': [enc_inputs({'x': i})['x'] for i in v]}
        else:
            out[k] = v
    return out


def dec_inputs(d):
    out = {}
    for k, v in d.items():
        if isinstance(v, dict) and 'b' in v:
            out[k] = bytes.fromhex(v['b'])
        elif isinstance(v, dict) and 'f' in v:
            out[k] = float.fromhex(v['f'])
        elif isinstance(v, dict) and 'l' in v:
            out[k] = [dec_inputs({'x': i})['x'] for i in v['l']]
        else:
            out[k] = v
    return out


# ------------------------------------------------------------ stream handles
class SymStreamH:
    """handle on a symbolic byte stream of symbolic length N"""
    sym = True

    def __init__(self, stream, N):
        self.s = stream
        self.N = N              # int / SymInt

    def slice(self, lo, hi):
        return SymBytes.of(self.s, lo, hi)

    def whole(self):
        return SymBytes.of(self.s, 0, self.N)

    def byte(self, i):
        """value of byte i (caller guarantees i < N)"""
        return wrapint(self.s.at(toint(i)))

    def be(self, off, n):
        t = z3.IntVal(0)
        for k in range(n):
            t = t * 256 + self.s.at(z3.simplify(toint(off) + k))
        return wrapint(t)

    def le(self, off, n):
        t = z3.IntVal(0)
        for k in range(n - 1, -1, -1):
            t = t * 256 + self.s.at(z3.simplify(toint(off) + k))
        return wrapint(t)

    def has(self, off, lit):
        """N >= off+len(lit) and S[off:off+len] == lit"""
        cs = [wrapbool(toint(self.N) >= toint(off) + len(lit))]
        for k, b in enumerate(lit):
            cs.append(wrapbool(
                self.s.at(z3.simplify(toint(off) + k)) == b))
        return AND(*cs)


class ConcStreamH:
    sym = False

    def __init__(self, full, N=None):
        self.full = full
        self.N = len(full) if N is None else N
        self.data = full[:self.N]

    def slice(self, lo, hi):
        return self.data[max(lo, 0):max(hi, 0)]

    def whole(self):
        return self.data

    def byte(self, i):
        # beyond the end: 0 (reference predicates guard with N themselves)
        return self.full[i] if 0 <= i < len(self.full) else 0

    def be(self, off, n):
        return int.from_bytes(self.full[off:off + n].ljust(n, b'\0'), 'big')

    def le(self, off, n):
        return int.from_bytes(self.full[off:off + n].ljust(n, b'\0'),
                              'little')

    def has(self, off, lit):
        return self.data[off:off + len(lit)] == lit


# ------------------------------------------------------------ contexts
class CheckFailed(Exception):
    pass


class BaseCtx:
    def goal(self, name):
        self.goals.add(name)

    def active(self, finding):
        return finding in self.findings


class SymCtx(BaseCtx):
    sym = True

    def __init__(self, eng, params, findings=()):
        self.e = eng
        self.p = params
        self.findings = set(findings)
        self.reg = []           # (name, kind, payload)
        self.goals = set()
        self.checked = []

    # ---- inputs
    def int(self, name, lo=None, hi=None):
        v = z3.Int(name)
        if lo is not None:
            self.e.add_unary(v >= lo) if isinstance(lo, int) else \
                self.e.add(v >= toint(lo))
        if hi is not None:
            self.e.add_unary(v <= hi) if isinstance(hi, int) else \
                self.e.add(v <= toint(hi))
        self.reg.append((name, 'int', v))
        if lo is not None and hi is not None:
            if not self.e.check(v >= toint(lo)):
                raise PathAbort()
        return SymInt(v)

    def bool(self, name):
        v = z3.Bool(name)
        self.reg.append((name, 'bool', v))
        return SymBool(v)

    def float(self, name, finite=True, lo=None, hi=None):
        v = z3.FP(name, core.F64)
        if finite:
            self.e.add_unary(z3.Not(z3.Or(z3.fpIsNaN(v), z3.fpIsInf(v))))
        iv = None
        if lo is not None and hi is not None:
            self.e.add_unary(z3.And(z3.fpGEQ(v, core.fpval(lo)),
                                    z3.fpLEQ(v, core.fpval(hi))))
            iv = (float(lo), float(hi))
        self.reg.append((name, 'float', v))
        return SymFloat(v, iv)

    def choice(self, name, options):
        """fork over a finite list of python values"""
        v = z3.Int(name)
        self.e.add_unary(z3.And(v >= 0, v < len(options)))
        self.reg.append((name, 'int', v))
        for i, o in enumerate(options[:-1]):
            if self.e.branch(v == i):
                return o
        return options[-1]

    def byte_var(self, name):
        v = z3.Int(name)
        self.e.dom.setdefault(name, frozenset(range(256)))
        self.e.add_unary(z3.And(v >= 0, v <= 255))
        self.e.bytes_ids.add(v.get_id())
        return v

    def stream(self, name, N, sym_cells=(), fixed=None, default=0,
               segs=None):
        """byte stream: `sym_cells` positions are symbolic bytes, `fixed`
        maps positions to concrete bytes, everything else is `default`
        (an int, or 'free' = unconstrained).  segs: [(start SymInt/int,
        [values: int | ('sym', name)])] relocatable segments."""
        cells = dict(fixed or {})
        for p in sym_cells:
            cells[p] = self.byte_var('%s_%d' % (name, p))
        zsegs = []
        for seg in (segs or []):
            start, vals = seg[0], seg[1]
            zv = []
            for x in vals:
                if isinstance(x, tuple):
                    zv.append(self.byte_var(x[1]))
                else:
                    zv.append(x)
            zsegs.append((z3.simplify(toint(start)), zv) + tuple(seg[2:]))
        st = Stream(name, cells, default, zsegs)
        self.reg.append((name, 'stream', (st, N)))
        return SymStreamH(st, N)

    def str(self, name, n, domain=ALPHA):
        s = SymStr.fresh(name, n, domain)
        self.reg.append((name, 'str', s))
        return s

    def strlen(self, name, lo, hi, domain=ALPHA):
        """string of symbolic length lo..hi (forks on the length)"""
        n = self.choice(name + '_len', list(range(lo, hi + 1)))
        return self.str(name, n, domain)

    def assume(self, c):
        self.e.assume(c)

    def concretize(self, model):
        out = {}
        for name, kind, v in self.reg:
            if kind == 'int':
                out[name] = model.eval(v, model_completion=True).as_long()
            elif kind == 'bool':
                out[name] = z3.is_true(model.eval(v, model_completion=True))
            elif kind == 'float':
                out[name] = fp_to_py(model.eval(v, model_completion=True))
            elif kind == 'stream':
                st, N = v
                n = evaluate(N, model)
                # content far beyond the presented length is dropped
                full = max(n, min(st.extent(model), 32 * 1024 * 1024))
                if full > 256 * 1024 * 1024:
                    raise EngineError('witness stream of %d bytes' % full)
                # full content (fields beyond a truncated N included);
                # the scenario's own N input says how much is presented
                out[name] = st.concretize(model, full)
            elif kind == 'str':
                out[name] = v.concrete(model)
        return out

    # ---- obligations
    def check(self, label, cond, unless=()):
        props = self.p.get('props')
        if props and label.split('-')[0] not in props:
            return True
        for fid, pred in unless:
            if fid in self.findings:
                cond = OR(cond, pred)
        self.checked.append(label)
        before = len(self.e.violations)
        try:
            ok = self.e.require(label, cond)
        finally:
            if len(self.e.violations) > before:
                v = self.e.violations[-1]
                v.inputs = self.concretize(v.model)
                v.params = self.p
        if len(self.e.violations) >= self.e.max_violations:
            raise Stop('violations')
        return ok

    def truth(self, c):
        """fork on c"""
        return bool(c)


class ConcCtx(BaseCtx):
    sym = False

    def __init__(self, inputs, params, findings=()):
        self.i = inputs
        self.p = params
        self.findings = set(findings)
        self.failures = []
        self.goals = set()
        self.checked = []

    # an input declared after the point where a counterexample was found is
    # not in the replayed inputs: any value will do for it
    def int(self, name, lo=None, hi=None):
        return self.i.get(name, lo if isinstance(lo, int) else 0)

    def bool(self, name):
        return self.i.get(name, False)

    def float(self, name, finite=True, lo=None, hi=None):
        return self.i.get(name, 0.0 if lo is None else float(lo))

    def choice(self, name, options):
        return options[self.i.get(name, 0)]

    def stream(self, name, N, sym_cells=(), fixed=None, default=0,
               segs=None):
        return ConcStreamH(self.i[name], N)

    def str(self, name, n, domain=ALPHA):
        return self.i.get(name, chr(min(domain)) * n)

    def strlen(self, name, lo, hi, domain=ALPHA):
        n = self.choice(name + '_len', list(range(lo, hi + 1)))
        return self.i.get(name, chr(min(domain)) * n)

    def assume(self, c):
        if not c:
            raise PathAbort()

    def check(self, label, cond, unless=()):
        props = self.p.get('props')
        if props and label.split('-')[0] not in props:
            return True
        for fid, pred in unless:
            if fid in self.findings and pred:
                return True
        self.checked.append(label)
        if not cond:
            self.failures.append(label)
            return False
        return True

    def truth(self, c):
        return bool(c)


# ------------------------------------------------------------ one job
class Harness:
    """A harness = scenario(ctx, M) + how to obtain M symbolically and
    for real.  Subclass or instantiate with callables."""
    name = 'harness'

    def __init__(self, name, scenario, load_sym, load_real, functions_hint=(),
                 witness_every=1):
        self.name = name
        self.scenario = scenario
        self.load_sym = load_sym
        self.load_real = load_real
        self.witness_every = witness_every


_SYM_CACHE = {}
_REAL_CACHE = {}


def _get(cache, h, f):
    k = (h.name, f)
    if k not in cache:
        cache[k] = f()
    return cache[k]


def obs_equal(a, b):
    if isinstance(a, float) and isinstance(b, float):
        return a == b or (a != a and b != b)
    if isinstance(a, (list, tuple)) and isinstance(b, (list, tuple)):
        return len(a) == len(b) and all(obs_equal(x, y)
                                        for x, y in zip(a, b))
    if isinstance(a, dict) and isinstance(b, dict):
        return a.keys() == b.keys() and all(obs_equal(a[k], b[k]) for k in a)
    return type(a) == type(b) and a == b or \
        (isinstance(a, (int, bool)) and isinstance(b, (int, bool))
         and a == b)


def run_job(h, params, findings=(), forced=(), split_depth=None,
            time_budget=None, max_paths=None, hash_flip=False):
    """Explore one configuration of a harness. Returns a result dict."""
    t0 = time.time()
    from . import env
    eng = set_engine(Engine())
    eng.hash_flip = hash_flip
    if time_budget:
        eng.deadline = t0 + time_budget
    res = dict(harness=h.name, params=params, forced=list(forced),
               witnesses=0, witness_mismatch=[], samples=[], goals=set(),
               violations=[], inconclusive=[], cuts=[], functions=set(),
               sha={}, labels=set())
    try:
        Msym = _get(_SYM_CACHE, h, h.load_sym)
        Mreal = _get(_REAL_CACHE, h, h.load_real)
    except BaseException as e:
        res['inconclusive'].append('load failed: %s' % ''.join(
            traceback.format_exception(e))[-2000:])
        res['stats'] = eng.stats()
        res['wall_s'] = time.time() - t0
        return res
    res['sha'] = dict(getattr(Msym, 'sha', {}))
    npath = [0]
    rec = env.CallRecorder()

    def fn():
        ctx = SymCtx(eng, params, findings)
        obs = h.scenario(ctx, Msym)
        return ctx, obs

    def on_path(out):
        ctx, obs = out
        res['goals'] |= ctx.goals
        res['labels'] |= set(ctx.checked)
        npath[0] += 1
        if (npath[0] - 1) % h.witness_every:
            return
        model = eng.path_model()
        inputs = ctx.concretize(model)
        want = evaluate(obs, model)
        cctx = ConcCtx(inputs, params, findings)
        try:
            got = h.scenario(cctx, Mreal)
        except PathAbort:
            res['witness_mismatch'].append(dict(
                inputs=enc_inputs(inputs), why='concrete run rejected an '
                'assumption the symbolic path satisfied'))
            return
        except Exception as e:
            res['witness_mismatch'].append(dict(
                inputs=enc_inputs(inputs),
                why='concrete run raised %s: %s' % (type(e).__name__, e)))
            return
        if cctx.failures:
            res['witness_mismatch'].append(dict(
                inputs=enc_inputs(inputs),
                why='obligations %r fail concretely but were discharged '
                    'symbolically' % cctx.failures))
            return
        if not obs_equal(want, got):
            res['witness_mismatch'].append(dict(
                inputs=enc_inputs(inputs),
                why='outcome differs: symbolic %r, real %r' % (
                    jsonable(want), jsonable(got))))
            return
        res['witnesses'] += 1
        if len(res['samples']) < 3:
            res['samples'].append(dict(inputs=jsonable(inputs),
                                       outcome=jsonable(got)))

    with rec:
        try:
            eng.explore(fn, forced=forced, split_depth=split_depth,
                        on_path=on_path, max_paths=max_paths)
        except BaseException as e:
            res['inconclusive'].append('engine crashed: %s' % ''.join(
                traceback.format_exception(e))[-3000:])
    res['functions'] = rec.seen
    res['cuts'] = [list(c) for c in eng.cuts]
    for key, why, tb in eng.inconclusive:
        res['inconclusive'].append('%s\n%s' % (why, tb))
    # replay counterexamples on the real code
    for v in eng.violations:
        inputs = getattr(v, 'inputs', None)
        entry = dict(label=v.label, inputs=enc_inputs(inputs or {}),
                     params=params, harness=h.name)
        if inputs is None:
            entry['confirmed'] = False
            entry['why'] = 'no inputs'
        else:
            cctx = ConcCtx(inputs, params, findings)
            try:
                got = h.scenario(cctx, Mreal)
                entry['observed'] = jsonable(got)
                entry['confirmed'] = bool(cctx.failures)
                entry['failed_labels'] = cctx.failures
                if not cctx.failures:
                    entry['why'] = 'all obligations hold concretely'
            except PathAbort:
                entry['confirmed'] = bool(cctx.failures)
                entry['failed_labels'] = cctx.failures
                entry['why'] = 'concrete run rejected an assumption'
            except Exception as e:
                # the obligation may already have failed before the scenario
                # tripped over something later on
                entry['confirmed'] = bool(cctx.failures)
                entry['failed_labels'] = cctx.failures
                entry['why'] = 'concrete run raised %s: %s' % (
                    type(e).__name__, e)
        res['violations'].append(entry)
    res['stats'] = eng.stats()
    res['wall_s'] = time.time() - t0
    res['goals'] = sorted(res['goals'])
    res['labels'] = sorted(res['labels'])
    res['functions'] = sorted(res['functions'])
    return res


def replay_inputs(h, params, inputs, findings=()):
    """concrete run of a scenario on the real module"""
    Mreal = _get(_REAL_CACHE, h, h.load_real)
    cctx = ConcCtx(inputs, params, findings)
    try:
        got = h.scenario(cctx, Mreal)
    except (Exception, PathAbort) as e:
        if not cctx.failures:
            raise
        got = 'scenario stopped after the failure: %s' % type(e).__name__
    return cctx.failures, got
