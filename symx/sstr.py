"""Symbolic strings: a python list of characters (concrete length per path);
each character is an int code point or a SymChar (z3 Int) with a per-path
domain of possible code points."""
import z3
from . import core
from .core import (Unsupported, guard, wrapint, wrapbool, SymBool, SymInt,
                   set_term, deliberate)

BYTES = frozenset(range(256))
# a few code points beyond latin-1 whose case mapping, folding or class
# differs in interesting ways (Kelvin sign, long s, trade mark, service mark,
# numero, double-struck C, square MHz, capital sharp s, Greek alpha pair,
# combining acute, em space, line separator, fullwidth A pair, an astral one)
EXTRA = frozenset([0x212A, 0x017F, 0x2122, 0x2120, 0x2116, 0x2102, 0x3392,
                   0x1E9E, 0x0391, 0x03B1, 0x0301, 0x2003, 0x2028, 0xFF21,
                   0xFF41, 0x1F600])
ALPHA = BYTES | EXTRA

# tables computed from the real str methods, so the model is exact inside
# the alphabet by construction
WS = frozenset(c for c in ALPHA if chr(c).isspace())
PRINTABLE = frozenset(c for c in ALPHA if chr(c).isprintable())
DIGITS = frozenset(range(48, 58))
ISDIGIT = frozenset(c for c in ALPHA if chr(c).isdigit())
ISALPHA = frozenset(c for c in ALPHA if chr(c).isalpha())
ISALNUM = frozenset(c for c in ALPHA if chr(c).isalnum())
ISUPPER = frozenset(c for c in ALPHA if chr(c).isupper())
ISLOWER = frozenset(c for c in ALPHA if chr(c).islower())


class Table(dict):
    """code point -> code point map over ALPHA (None: leaves the alphabet
    or is not a single character); hashable by identity"""
    def __hash__(self):
        return id(self)

    def __eq__(self, o):
        return self is o or (isinstance(o, dict) and dict.__eq__(self, o))


def _table(f):
    t = Table()
    for c in ALPHA:
        r = f(chr(c))
        t[c] = ord(r) if len(r) == 1 and ord(r) in ALPHA else None
    return t


LOWER = _table(str.lower)
UPPER = _table(str.upper)
CASEFOLD = _table(str.casefold)
IDENT = Table((c, c) for c in ALPHA)
_COMPOSED = {}


def compose(m1, m2):
    """apply m1 then m2"""
    if m1 is None:
        return m2
    if m2 is None:
        return m1
    key = (id(m1), id(m2))
    r = _COMPOSED.get(key)
    if r is None:
        r = _COMPOSED[key] = Table(
            (c, None if a is None else m2[a]) for c, a in m1.items())
    return r


class SymChar:
    """symbolic character: z3 Int `v` (ideally a constant with a domain in
    the engine), optionally seen through a code-point map `m`"""
    __slots__ = ('v', 'm', 'name')

    def __init__(self, v, m=None):
        self.v = v
        self.m = m
        self.name = v.decl().name() if (
            z3.is_const(v) and
            v.decl().kind() == z3.Z3_OP_UNINTERPRETED) else None

    @staticmethod
    def of_term(t, domain=ALPHA):
        ch = SymChar(t)
        if ch.name is not None:
            core.ENG.dom.setdefault(ch.name, frozenset(domain))
        return ch

    @staticmethod
    def fresh(name, domain=ALPHA):
        E = core.ENG
        v = z3.Int(name)
        domain = frozenset(domain)
        if name not in E.dom:
            E.dom[name] = domain
            E.add_unary(set_term(v, domain))
        return SymChar(v)

    def domain(self):
        if self.name is None:
            return ALPHA
        return core.ENG.dom[self.name]

    def in_set(self, s):
        """fork on membership of this character in python set s"""
        E = core.ENG
        if self.name is None:
            return E.branch(set_term(self.term(), frozenset(s)))
        if self.m is None:
            return E.branch_char(self.v, frozenset(s))
        d = E.dom[self.name]
        pre = frozenset(c for c in d if self.m[c] in s)
        if any(self.m[c] is None for c in d):
            raise Unsupported('case mapping leaves the alphabet')
        return E.branch_char(self.v, pre)

    def term(self):
        if self.m is None:
            return self.v
        d = self.domain() if self.name is not None else ALPHA
        # group code points by delta
        res = self.v
        runs = []
        for c in sorted(d):
            t = self.m[c]
            if t is None:
                raise Unsupported('case mapping leaves the alphabet')
            dl = t - c
            if dl == 0:
                continue
            if runs and runs[-1][2] == dl and runs[-1][1] == c - 1:
                runs[-1][1] = c
            else:
                runs.append([c, c, dl])
        for a, b, dl in runs:
            cond = (self.v == a) if a == b else z3.And(self.v >= a,
                                                       self.v <= b)
            res = z3.If(cond, self.v + dl, res)
        return res

    def mapped(self, m):
        return SymChar(self.v, compose(self.m, m))

    def __repr__(self):
        return 'SymChar(%s%s)' % (self.v, '' if self.m is None else '~')


def is_sym(c):
    return not isinstance(c, int)


def cterm(c):
    return z3.IntVal(c) if isinstance(c, int) else c.term()


def ceq(a, b):
    """equality of two characters -> python bool or z3 Bool term, pruned by
    the domains"""
    if isinstance(a, DecStr) or isinstance(b, DecStr):
        if isinstance(a, DecStr) and isinstance(b, DecStr):
            return z3.simplify(a.t == b.t)
        other = b if isinstance(a, DecStr) else a
        if isinstance(other, int) and other not in _DECCHARS:
            # a decimal rendering never contains this character: for
            # searching separators the atom is a non-matching element
            return False
        raise Unsupported('decimal atom compared with a character')
    sa, sb = is_sym(a), is_sym(b)
    if not sa and not sb:
        return a == b
    if sa and not sb:
        a, b = b, a
        sa, sb = sb, sa
    if not sa:                 # a concrete, b symbolic
        if b.name is not None:
            d = b.domain()
            m = b.m or IDENT
            pre = [c for c in d if m[c] == a]
            if not pre:
                return False
            if len(pre) == len(d):
                return True
            return set_term(b.v, frozenset(pre), d)
        return b.term() == a
    if a.name is not None and a.name == b.name and a.m == b.m:
        return True
    return a.term() == b.term()


_DECCHARS = frozenset(b'0123456789-')


def _br(t):
    if isinstance(t, bool):
        return t
    return core.ENG.branch(t)


def conj(ts):
    out = []
    for t in ts:
        if t is False:
            return False
        if t is not True:
            out.append(t)
    if not out:
        return True
    return z3.And(*out) if len(out) > 1 else out[0]


def match_here(chars, i, sub):
    if i + len(sub) > len(chars) or i < 0:
        return False
    return conj(ceq(a, b) for a, b in zip(chars[i:i + len(sub)], sub))


def tosym(x):
    if isinstance(x, SymStr):
        return x
    if isinstance(x, str):
        if '' in x:
            return lift(x)
        return SymStr([ord(ch) for ch in x])
    raise Unsupported('tosym %r' % type(x))


TOK_A, TOK_Z = '', ''


def lift(s):
    """real str possibly containing placeholder tokens -> SymStr"""
    if isinstance(s, (SymStr, DecStr)):
        return s
    toks = getattr(core.ENG, 'tokens', None) or {}
    out = []
    i = 0
    while i < len(s):
        if s[i] == TOK_A:
            j = s.index(TOK_Z, i)
            obj = toks[int(s[i + 1:j])]
            if isinstance(obj, DecStr):
                out.append(obj)       # kept as an atom
            else:
                out.extend(obj.c)
            i = j + 1
        else:
            out.append(ord(s[i]))
            i += 1
    return SymStr(out)


def has_token(s):
    return isinstance(s, str) and TOK_A in s


class TokStr(str):
    """real str carrying a placeholder token (see DESIGN 3.2)"""


def tokenize(obj):
    E = core.ENG
    if not getattr(E, 'allow_tokens', False):
        from . import env
        if env.in_message_context():
            return '<sym>'
        raise Unsupported('symbolic string forced to a real str')
    if getattr(E, 'tokens', None) is None or E.__dict__.get('_tok_pc') \
            is not E.pc:
        E.tokens = {}
        E._tok_pc = E.pc
    n = len(E.tokens)
    E.tokens[n] = obj
    return TokStr('%s%d%s' % (TOK_A, n, TOK_Z))


class SymStr:
    def __init__(self, chars):
        self.c = list(chars)

    @staticmethod
    def of(s):
        return SymStr([ord(x) for x in s])

    @staticmethod
    def fresh(name, n, domain=ALPHA):
        return SymStr([SymChar.fresh('%s_%d' % (name, i), domain)
                       for i in range(n)])

    # -- basics
    def __len__(self):
        if any(isinstance(x, DecStr) for x in self.c):
            raise Unsupported('len of a string containing a decimal atom')
        return len(self.c)

    def __bool__(self):
        return len(self.c) > 0

    def __iter__(self):
        return iter([SymStr([ch]) for ch in self.c])

    def __hash__(self):
        if all(isinstance(ch, int) for ch in self.c):
            # fully concrete: behaves like the str it spells
            return hash(''.join(chr(ch) for ch in self.c))
        # a harness may allow symbolic dict keys when it guarantees that no
        # two keys of one dict can be equal (identity then decides lookups)
        if getattr(core.ENG, 'allow_symkey_hash', False):
            h_ = self.__dict__.get('_hid')
            if h_ is None:
                h_ = self.__dict__['_hid'] = core.ENG.next_obj_id()
            return 0x5eed0000 + h_
        raise Unsupported('hash of SymStr')

    @guard
    def __add__(self, o):
        if not isinstance(o, (str, SymStr)):
            return NotImplemented
        return SymStr(self.c + tosym(o).c)

    @guard
    def __radd__(self, o):
        if not isinstance(o, (str, SymStr)):
            return NotImplemented
        return SymStr(tosym(o).c + self.c)

    def __mul__(self, n):
        if isinstance(n, int):
            return SymStr(self.c * n)
        raise Unsupported('SymStr * symbolic')

    @guard
    def __getitem__(self, k):
        if isinstance(k, slice):
            for x in (k.start, k.stop, k.step):
                if isinstance(x, SymInt):
                    raise Unsupported('symbolic slice bound on SymStr')
            return SymStr(self.c[k])
        if isinstance(k, SymInt):
            raise Unsupported('symbolic index on SymStr')
        try:
            return SymStr([self.c[k]])
        except IndexError:
            raise deliberate(IndexError('string index out of range'))

    def __str__(self):
        return tokenize(self)

    def __format__(self, spec):
        if spec:
            raise Unsupported('format spec on SymStr')
        return tokenize(self)

    def __repr__(self):
        from . import env
        if env.in_message_context():
            return '<symstr>'
        return 'SymStr(%r)' % (self.c,)

    def __mod__(self, o):
        raise Unsupported('SymStr %% args')

    # -- comparison
    def eq_t(self, o):
        if isinstance(o, DecStr):
            return o.eq_t(self)
        if not isinstance(o, (str, SymStr)):
            return False
        o = tosym(o).c
        if len(o) != len(self.c):
            return False
        return match_here(self.c, 0, o)

    @guard
    def __eq__(self, o):
        r = self.eq_t(o)
        return r if isinstance(r, bool) else wrapbool(r)

    @guard
    def __ne__(self, o):
        r = self.eq_t(o)
        return (not r) if isinstance(r, bool) else wrapbool(z3.Not(r))

    def _lex(self, o, strict_less):
        """self < o (or <= when not strict_less) as a z3 term / bool"""
        a, b = self.c, tosym(o).c
        n = min(len(a), len(b))
        # build from the end
        tail = (len(a) < len(b)) if strict_less else (len(a) <= len(b))
        res = tail
        for i in range(n - 1, -1, -1):
            x, y = cterm(a[i]), cterm(b[i])
            lt = z3.simplify(x < y)
            eq = z3.simplify(x == y)
            rest = res if not isinstance(res, bool) else z3.BoolVal(res)
            res = z3.simplify(z3.Or(lt, z3.And(eq, rest)))
        if isinstance(res, bool):
            return res
        return wrapbool(res)

    @guard
    def __lt__(self, o):
        return self._lex(o, True)

    @guard
    def __le__(self, o):
        return self._lex(o, False)

    @guard
    def __gt__(self, o):
        return tosym(o)._lex(self, True)

    @guard
    def __ge__(self, o):
        return tosym(o)._lex(self, False)

    # -- case
    def _map(self, table):
        out = []
        for ch in self.c:
            if is_sym(ch):
                mc = ch.mapped(table)
                if mc.name is not None:
                    img = {mc.m[c] for c in mc.domain()}
                    if len(img) == 1 and None not in img:
                        out.append(img.pop())   # same image for the whole
                        continue                # domain: a concrete char
                out.append(mc)
            else:
                t = table.get(ch)
                if t is None:
                    r = (chr(ch).lower() if table is LOWER
                         else chr(ch).casefold() if table is CASEFOLD
                         else chr(ch).upper())
                    out.extend(ord(x) for x in r)
                else:
                    out.append(t)
        return SymStr(out)

    @guard
    def lower(self):
        return self._map(LOWER)

    @guard
    def upper(self):
        return self._map(UPPER)

    @guard
    def casefold(self):
        return self._map(CASEFOLD)

    # -- searching
    @guard
    def __contains__(self, sub):
        return self.find(sub) >= 0

    @guard
    def find(self, sub, start=0, end=None):
        sub = tosym(sub).c
        n = len(self.c) if end is None else min(end, len(self.c))
        if start < 0:
            start = max(0, len(self.c) + start)
        for i in range(start, n - len(sub) + 1):
            if _br(match_here(self.c, i, sub)):
                return i
        return -1

    @guard
    def rfind(self, sub):
        sub = tosym(sub).c
        for i in range(len(self.c) - len(sub), -1, -1):
            if _br(match_here(self.c, i, sub)):
                return i
        return -1

    @guard
    def index(self, sub, start=0):
        r = self.find(sub, start)
        if r < 0:
            raise deliberate(ValueError('substring not found'))
        return r

    @guard
    def count(self, sub):
        sub = tosym(sub).c
        if not sub:
            return len(self.c) + 1
        n, i = 0, 0
        while i <= len(self.c) - len(sub):
            if _br(match_here(self.c, i, sub)):
                n += 1
                i += len(sub)
            else:
                i += 1
        return n

    @guard
    def startswith(self, p, start=0):
        if isinstance(p, tuple):
            return any(self.startswith(x, start) for x in p)
        return _br(match_here(self.c, start, tosym(p).c))

    @guard
    def endswith(self, p):
        if isinstance(p, tuple):
            return any(self.endswith(x) for x in p)
        p = tosym(p).c
        return _br(match_here(self.c, len(self.c) - len(p), p))

    @guard
    def split(self, sep=None, maxsplit=-1):
        if isinstance(maxsplit, SymInt):
            raise Unsupported('symbolic maxsplit')
        if sep is None:
            out, cur = [], []
            i = 0
            n = len(self.c)
            # python semantics: runs of whitespace separate; leading and
            # trailing whitespace dropped
            while i < n:
                while i < n and isws(self.c[i]):
                    i += 1
                if i >= n:
                    break
                if maxsplit >= 0 and len(out) >= maxsplit:
                    j = n
                    while j > i and isws(self.c[j - 1]):
                        j -= 1
                    out.append(SymStr(self.c[i:j]))
                    return out
                j = i
                while j < n and not isws(self.c[j]):
                    j += 1
                out.append(SymStr(self.c[i:j]))
                i = j
            return out
        sep = tosym(sep).c
        if not sep:
            raise deliberate(ValueError('empty separator'))
        out, cur, i = [], [], 0
        while i < len(self.c):
            if (maxsplit < 0 or len(out) < maxsplit) and \
                    _br(match_here(self.c, i, sep)):
                out.append(SymStr(cur))
                cur = []
                i += len(sep)
            else:
                cur.append(self.c[i])
                i += 1
        out.append(SymStr(cur))
        return out

    @guard
    def rsplit(self, sep=None, maxsplit=-1):
        if sep is None:
            raise Unsupported('rsplit(None)')
        sep = tosym(sep).c
        out, cur = [], []
        i = len(self.c)
        while i > 0:
            if (maxsplit < 0 or len(out) < maxsplit) and \
                    _br(match_here(self.c, i - len(sep), sep)):
                out.append(SymStr(list(reversed(cur))))
                cur = []
                i -= len(sep)
            else:
                cur.append(self.c[i - 1])
                i -= 1
        out.append(SymStr(list(reversed(cur))))
        return list(reversed(out))

    @guard
    def partition(self, sep):
        i = self.find(sep)
        if i < 0:
            return (self, SymStr([]), SymStr([]))
        n = len(tosym(sep).c)
        return (SymStr(self.c[:i]), tosym(sep), SymStr(self.c[i + n:]))

    def _strip(self, chars, left, right):
        if chars is None:
            test = isws
        else:
            cs = frozenset(ord(x) for x in chars)
            test = lambda ch: in_set(ch, cs)
        a, b = 0, len(self.c)
        if left:
            while a < b and test(self.c[a]):
                a += 1
        if right:
            while b > a and test(self.c[b - 1]):
                b -= 1
        return SymStr(self.c[a:b])

    @guard
    def strip(self, chars=None):
        return self._strip(chars, True, True)

    @guard
    def lstrip(self, chars=None):
        return self._strip(chars, True, False)

    @guard
    def rstrip(self, chars=None):
        return self._strip(chars, False, True)

    @guard
    def replace(self, old, new, count=-1):
        old, new = tosym(old).c, tosym(new).c
        if not old:
            raise Unsupported('replace of empty string')
        out, i, n = [], 0, 0
        while i < len(self.c):
            if (count < 0 or n < count) and \
                    _br(match_here(self.c, i, old)):
                out.extend(new)
                i += len(old)
                n += 1
            else:
                out.append(self.c[i])
                i += 1
        return SymStr(out)

    @guard
    def removesuffix(self, suf):
        suf = tosym(suf).c
        if suf and _br(match_here(self.c, len(self.c) - len(suf), suf)):
            return SymStr(self.c[:len(self.c) - len(suf)])
        return self

    @guard
    def join(self, items):
        out = []
        first = True
        for it in items:
            if not first:
                out.extend(self.c)
            out.extend(tosym(it).c)
            first = False
        return SymStr(out)

    def _all(self, s):
        if not self.c:
            return False
        for ch in self.c:
            if not in_set(ch, s):
                return False
        return True

    @guard
    def isprintable(self):
        for ch in self.c:
            if not in_set(ch, PRINTABLE):
                return False
        return True

    @guard
    def isspace(self):
        return self._all(WS)

    @guard
    def isdigit(self):
        return self._all(ISDIGIT)

    @guard
    def isalpha(self):
        return self._all(ISALPHA)

    @guard
    def isalnum(self):
        return self._all(ISALNUM)

    def encode(self, enc='utf-8', errors='strict'):
        raise Unsupported('SymStr.encode')

    def concrete(self, model):
        out = []
        for ch in self.c:
            if isinstance(ch, DecStr):
                out.append(str(model.eval(ch.t, model_completion=True)
                               .as_long()))
            elif is_sym(ch):
                out.append(chr(model.eval(ch.term(), model_completion=True)
                               .as_long()))
            else:
                out.append(chr(ch))
        return ''.join(out)


def in_set(ch, s):
    if is_sym(ch):
        return ch.in_set(s)
    return ch in s


def isws(ch):
    return in_set(ch, WS)


class DecStr:
    """the decimal rendering str(i) of a symbolic int"""
    def __init__(self, t):
        self.t = t

    def eq_t(self, o):
        if isinstance(o, DecStr):
            return z3.simplify(self.t == o.t)
        if isinstance(o, (str, SymStr)):
            o = tosym(o)
            if len(o.c) == 1 and isinstance(o.c[0], DecStr):
                return z3.simplify(self.t == o.c[0].t)
            v = canonical_decimal(o)
            if v is None:
                return False
            return z3.simplify(self.t == core.toint(v))
        return False

    @guard
    def __eq__(self, o):
        r = self.eq_t(o)
        return r if isinstance(r, bool) else wrapbool(r)

    @guard
    def __ne__(self, o):
        r = self.eq_t(o)
        return (not r) if isinstance(r, bool) else wrapbool(z3.Not(r))

    def __hash__(self):
        raise Unsupported('hash of DecStr')

    def lower(self):
        return self

    upper = strip = lstrip = rstrip = lower

    def __len__(self):
        raise Unsupported('len of the decimal rendering of a symbolic int')

    def __str__(self):
        return tokenize(self)

    def __format__(self, spec):
        return tokenize(self)

    def __repr__(self):
        return 'DecStr(%s)' % self.t

    def concrete(self, model):
        return str(model.eval(self.t, model_completion=True).as_long())


def canonical_decimal(s):
    """If the SymStr `s` is the canonical base-10 rendering of an integer
    (-?(0|[1-9][0-9]*)) return its value (int/SymInt), else None.  Forks."""
    c = s.c
    i = 0
    neg = False
    if c and in_set(c[0], frozenset([45])):
        neg = True
        i = 1
    digs = c[i:]
    if not digs:
        return None
    for ch in digs:
        if not in_set(ch, DIGITS):
            return None
    if len(digs) > 1 and in_set(digs[0], frozenset([48])):
        return None
    if neg and len(digs) == 1 and in_set(digs[0], frozenset([48])):
        return None            # "-0" is not canonical (str(int('-0')) == '0')
    v = z3.IntVal(0)
    for ch in digs:
        v = v * 10 + (cterm(ch) - 48)
    v = wrapint(v)
    return -v if neg else v


def parse_int(s):
    """int(str) on a SymStr with CPython's acceptance rules (base 10):
    surrounding whitespace, optional sign, digits with single underscores
    between digits.  Forks per character class; raises ValueError."""
    if isinstance(s, DecStr):
        return wrapint(s.t)
    if len(s.c) == 1 and isinstance(s.c[0], DecStr):
        return wrapint(s.c[0].t)
    c = s.strip().c

    def bad():
        raise deliberate(ValueError('invalid literal for int() with base 10'))
    i = 0
    neg = False
    if c and is_sym(c[0]):
        if in_set(c[0], frozenset([43, 45])):
            neg = in_set(c[0], frozenset([45]))
            i = 1
    elif c and c[0] in (43, 45):
        neg = c[0] == 45
        i = 1
    body = c[i:]
    if not body:
        bad()
    v = z3.IntVal(0)
    prev_us = True          # a leading underscore is invalid
    for k, ch in enumerate(body):
        if in_set(ch, DIGITS):
            v = v * 10 + (cterm(ch) - 48)
            prev_us = False
        elif in_set(ch, frozenset([95])):
            if prev_us:
                bad()
            prev_us = True
        else:
            bad()
    if prev_us:
        bad()
    v = wrapint(v)
    return -v if neg else v


class LazyTailStr:
    """result of decoding a buffer of symbolic length: a certain prefix
    plus a concrete tail whose extent is decided lazily while iterating"""
    def __init__(self, prefix, tail, len_t, lmin):
        self._p = prefix
        self._t = tail
        self._lt = len_t
        self._lmin = lmin

    def __iter__(self):
        for ch in self._p:
            yield SymStr([ch])
        i = self._lmin
        for v in self._t:
            if not core.ENG.branch(self._lt > i):
                return
            yield SymStr([v])
            i += 1

    def __getattr__(self, name):
        raise Unsupported('%s on a decoded buffer of symbolic length' % name)
