"""symx: bounded symbolic execution of real Python source with z3."""
