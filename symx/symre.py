"""Symbolic model of the `re` module: a backtracking matcher over the parse
tree that the *real* re._parser produces, on SymStr character lists.
Leftmost-first semantics like _sre.  Class tests on symbolic characters
fork through the per-character domains."""
import re as _re
import re._parser as sp
import re._constants as sc
import z3
from . import core
from .core import Unsupported, guard
from .sstr import (SymStr, SymChar, tosym, is_sym, in_set, ALPHA, lift,
                   has_token, DecStr)


def cat_table(cat):
    f = {
        sc.CATEGORY_SPACE: lambda ch: chr(ch).isspace(),
        sc.CATEGORY_NOT_SPACE: lambda ch: not chr(ch).isspace(),
        sc.CATEGORY_DIGIT: lambda ch: chr(ch).isdecimal(),
        sc.CATEGORY_NOT_DIGIT: lambda ch: not chr(ch).isdecimal(),
        sc.CATEGORY_WORD: lambda ch: chr(ch).isalnum() or ch == 95,
        sc.CATEGORY_NOT_WORD: lambda ch: not (chr(ch).isalnum() or ch == 95),
    }[cat]
    return frozenset(ch for ch in ALPHA if f(ch))


def variants(ch):
    s = {ch}
    for _round in range(2):
        for c in list(s):
            for v in (chr(c).lower(), chr(c).upper()):
                if len(v) == 1 and ord(v) in ALPHA:
                    s.add(ord(v))
    # _sre ignore-case: compare lower(ch) with lower(pattern char) plus the
    # fix table; inside latin-1 the only extra pair is micro sign / mu, which
    # leaves the alphabet.
    return s


def node_set(op, av, icase):
    """set of code points (within ALPHA) a single-char node matches"""
    if op is sc.LITERAL:
        base = {av}
    elif op is sc.NOT_LITERAL:
        inner = {av}
        if icase:
            return frozenset(ch for ch in ALPHA if not (variants(ch) & inner))
        return frozenset(ch for ch in ALPHA if ch not in inner)
    elif op is sc.ANY:
        return frozenset(ALPHA)
    elif op is sc.CATEGORY:
        base = cat_table(av)
    elif op is sc.IN:
        neg = False
        base = set()
        for o, a in av:
            if o is sc.NEGATE:
                neg = True
            elif o is sc.LITERAL:
                base.add(a)
            elif o is sc.RANGE:
                base |= {c for c in ALPHA if a[0] <= c <= a[1]}
            elif o is sc.CATEGORY:
                base |= cat_table(a)
            else:
                raise Unsupported('IN item %s' % o)
        if icase:
            m = frozenset(ch for ch in ALPHA if variants(ch) & base)
        else:
            m = frozenset(ch for ch in ALPHA if ch in base)
        return (frozenset(ALPHA) - m) if neg else m
    else:
        raise Unsupported('single node %s' % op)
    if icase:
        return frozenset(ch for ch in ALPHA if variants(ch) & base)
    return frozenset(base)


WORD = cat_table(sc.CATEGORY_WORD)
_NL = frozenset([10])


class SymMatch:
    def __init__(self, s, start, end, groups, pat):
        self._s = s
        self._start = start
        self._end = end
        self._g = groups
        self._pat = pat

    def _grp(self, n):
        if n == 0:
            return SymStr(self._s[self._start:self._end])
        if isinstance(n, str):
            n = self._pat.tree.state.groupdict[n]
        if n not in self._g:
            if n > self._pat.ngroups:
                raise core.deliberate(IndexError('no such group'))
            return None
        a, b = self._g[n]
        return SymStr(self._s[a:b])

    def group(self, *ns):
        if not ns:
            return self._grp(0)
        if len(ns) == 1:
            return self._grp(ns[0])
        return tuple(self._grp(n) for n in ns)

    def groups(self, default=None):
        out = []
        for n in range(1, self._pat.ngroups + 1):
            g = self._grp(n)
            out.append(default if g is None else g)
        return tuple(out)

    def __getitem__(self, n):
        return self._grp(n)

    def start(self, n=0):
        return self._start if n == 0 else self._g.get(n, (-1, -1))[0]

    def end(self, n=0):
        return self._end if n == 0 else self._g.get(n, (-1, -1))[1]

    def span(self, n=0):
        return (self.start(n), self.end(n))

    def __bool__(self):
        return True


class SymPattern:
    def __init__(self, pattern, flags=0):
        self.pattern = pattern
        self.flags = flags
        self.tree = sp.parse(pattern, flags)
        fl = self.tree.state.flags
        self.icase = bool(fl & _re.IGNORECASE)
        self.dotall = bool(fl & _re.DOTALL)
        self.multiline = bool(fl & _re.MULTILINE)
        if fl & (_re.ASCII | _re.LOCALE | _re.VERBOSE) and False:
            raise Unsupported('re flags %r' % fl)
        self.ascii = bool(fl & _re.ASCII)
        self.ngroups = self.tree.state.groups - 1
        self._sets = {}

    def _set(self, node):
        key = id(node)
        s = self._sets.get(key)
        if s is None:
            op, av = node
            if op is sc.ANY and not self.dotall:
                s = frozenset(ALPHA) - _NL
            else:
                s = node_set(op, av, self.icase)
            self._sets[key] = (s, node)
            return s
        return s[0]

    def test(self, node, ch):
        if isinstance(ch, DecStr):
            raise Unsupported('regex over a decimal atom')
        return in_set(ch, self._set(node))

    # backtracking matcher, continuation passing; returns k's result or None
    def m(self, seq, i, s, pos, groups, k):
        if i == len(seq):
            return k(pos, groups)
        op, av = seq[i]

        def nxt(p, g):
            return self.m(seq, i + 1, s, p, g, k)
        if op in (sc.LITERAL, sc.NOT_LITERAL, sc.IN, sc.ANY, sc.CATEGORY):
            if pos < len(s) and self.test(seq[i], s[pos]):
                return nxt(pos + 1, groups)
            return None
        if op is sc.SUBPATTERN:
            gid, add_flags, del_flags, sub = av
            if add_flags or del_flags:
                raise Unsupported('inline flag groups')
            start = pos

            def after(p, g):
                if gid is not None:
                    g = dict(g)
                    g[gid] = (start, p)
                return nxt(p, g)
            return self.m(list(sub), 0, s, pos, groups, after)
        if op is sc.BRANCH:
            for alt in av[1]:
                r = self.m(list(alt), 0, s, pos, groups, nxt)
                if r is not None:
                    return r
            return None
        if op in (sc.MAX_REPEAT, sc.MIN_REPEAT, sc.POSSESSIVE_REPEAT):
            if op is sc.POSSESSIVE_REPEAT:
                raise Unsupported('possessive repeat')
            lo, hi, sub = av
            sub = list(sub)
            greedy = op is sc.MAX_REPEAT

            def rep(count, p, g):
                def more():
                    if hi is not sc.MAXREPEAT and count >= hi:
                        return None
                    return self.m(
                        sub, 0, s, p, g,
                        lambda p2, g2: rep(count + 1, p2, g2)
                        if (p2 > p or count < lo) else None)
                if count < lo:
                    return more()
                if greedy:
                    r = more()
                    if r is not None:
                        return r
                    return nxt(p, g)
                r = nxt(p, g)
                if r is not None:
                    return r
                return more()
            return rep(0, pos, groups)
        if op is sc.AT:
            if av in (sc.AT_BEGINNING, sc.AT_BEGINNING_STRING):
                if av is sc.AT_BEGINNING and self.multiline:
                    raise Unsupported('multiline ^')
                return nxt(pos, groups) if pos == 0 else None
            if av is sc.AT_END:
                if self.multiline:
                    raise Unsupported('multiline $')
                if pos == len(s):
                    return nxt(pos, groups)
                if pos == len(s) - 1 and in_set(s[pos], _NL):
                    return nxt(pos, groups)
                return None
            if av is sc.AT_END_STRING:
                return nxt(pos, groups) if pos == len(s) else None
            if av in (sc.AT_BOUNDARY, sc.AT_NON_BOUNDARY):
                a = pos > 0 and in_set(s[pos - 1], WORD)
                b = pos < len(s) and in_set(s[pos], WORD)
                isb = a != b
                if av is sc.AT_NON_BOUNDARY:
                    isb = not isb
                return nxt(pos, groups) if isb else None
            raise Unsupported('AT %s' % av)
        if op is sc.GROUPREF:
            if av not in groups:
                return None
            a, b = groups[av]
            from .sstr import match_here, _br
            if _br(match_here(s, pos, s[a:b])):
                return nxt(pos + (b - a), groups)
            return None
        if op in (sc.ASSERT, sc.ASSERT_NOT):
            direction, sub = av
            if direction != 1:
                # lookbehind: re only admits fixed-width subpatterns, so
                # the match, if any, starts exactly width characters back
                lo, hi = sub.getwidth()
                if lo != hi or not isinstance(pos, int):
                    raise Unsupported('lookbehind')
                if pos - lo < 0:
                    r = None
                else:
                    r = self.m(list(sub), 0, s, pos - lo, groups,
                               lambda p, g: (p, g) if p == pos else None)
            else:
                r = self.m(list(sub), 0, s, pos, groups,
                           lambda p, g: (p, g))
            if op is sc.ASSERT:
                return nxt(pos, r[1]) if r is not None else None
            return nxt(pos, groups) if r is None else None
        raise Unsupported('regex op %s' % op)

    def match_at(self, s, pos, full=False):
        if full:
            k = lambda p, g: (p, g) if p == len(s) else None
        else:
            k = lambda p, g: (p, g)
        return self.m(list(self.tree), 0, s, pos, {}, k)

    @guard
    def match(self, string, pos=0):
        s = tosym(string).c
        r = self.match_at(s, pos)
        if r is None:
            return None
        return SymMatch(s, pos, r[0], r[1], self)

    @guard
    def fullmatch(self, string):
        s = tosym(string).c
        r = self.match_at(s, 0, full=True)
        if r is None:
            return None
        return SymMatch(s, 0, r[0], r[1], self)

    @guard
    def search(self, string, pos=0):
        s = tosym(string).c
        for p in range(pos, len(s) + 1):
            r = self.match_at(s, p)
            if r is not None:
                return SymMatch(s, p, r[0], r[1], self)
        return None

    @guard
    def sub(self, repl, string, count=0):
        s = tosym(string).c
        out = []
        pos = 0
        n = len(s)
        nsub = 0
        last_end = -1
        while pos <= n:
            r = None
            if not count or nsub < count:
                r = self.match_at(s, pos)
            if r is not None and not (r[0] == pos and pos == last_end):
                end, g = r
                out.extend(expand(repl, s, g, pos, end, self))
                nsub += 1
                last_end = end
                if end > pos:
                    pos = end
                    continue
                # empty match: copy one char and move on
                if pos < n:
                    out.append(s[pos])
                pos += 1
            else:
                if pos < n:
                    out.append(s[pos])
                pos += 1
        return SymStr(out)

    def _iter(self, string):
        s = tosym(string).c
        pos, n, last_end = 0, len(s), -1
        while pos <= n:
            r = self.match_at(s, pos)
            if r is not None and not (r[0] == pos and pos == last_end):
                end, g = r
                yield SymMatch(s, pos, end, g, self)
                last_end = end
                pos = end if end > pos else pos + 1
            else:
                pos += 1

    @guard
    def finditer(self, string):
        return iter(list(self._iter(string)))

    @guard
    def findall(self, string):
        out = []
        for m in self._iter(string):
            if self.ngroups == 0:
                out.append(m.group(0))
            elif self.ngroups == 1:
                g = m.group(1)
                out.append(g if g is not None else SymStr([]))
            else:
                out.append(tuple(g if g is not None else SymStr([])
                                 for g in m.groups()))
        return out

    @guard
    def split(self, string, maxsplit=0):
        raise Unsupported('re.split')


def expand(repl, s, g, mstart, mend, pat):
    """replacement template: str with \\g<N>, \\N escapes, or SymStr, or a
    list of such parts (see Repl)"""
    if callable(repl):
        r = repl(SymMatch(s, mstart, mend, g, pat))
        return tosym(r).c
    out = []
    parts = repl.parts if isinstance(repl, Repl) else [repl]
    for part in parts:
        if isinstance(part, SymStr):
            out.extend(part.c)
            continue
        if has_token(part):
            part_l = lift(part)
            out.extend(part_l.c)
            continue
        i = 0
        while i < len(part):
            chx = part[i]
            if chx == '\\' and i + 1 < len(part):
                nx = part[i + 1]
                if nx == 'g' and part.startswith('\\g<', i):
                    j = part.index('>', i)
                    gid = part[i + 3:j]
                    gid = int(gid) if gid.isdigit() else \
                        pat.tree.state.groupdict[gid]
                    if gid == 0:
                        out.extend(s[mstart:mend])
                    elif gid in g:
                        a, b = g[gid]
                        out.extend(s[a:b])
                    i = j + 1
                    continue
                if nx.isdigit():
                    gid = int(nx)
                    if gid in g:
                        a, b = g[gid]
                        out.extend(s[a:b])
                    i += 2
                    continue
                esc = {'n': '\n', 't': '\t', 'r': '\r', '\\': '\\'}
                if nx in esc:
                    out.append(ord(esc[nx]))
                    i += 2
                    continue
                raise Unsupported('template escape \\%s' % nx)
            out.append(ord(chx))
            i += 1
    return out


class Repl:
    """replacement template with embedded symbolic text:
    r'\\g<1>' + SymStr + r'\\g<2>' builds one of these"""
    def __init__(self, parts):
        self.parts = parts

    def __add__(self, o):
        return Repl(self.parts + [o])

    def __radd__(self, o):
        return Repl([o] + self.parts)


class ReModule:
    """drop-in for `import re` inside symbolically loaded modules"""
    DOTALL = S = _re.DOTALL
    IGNORECASE = I = _re.IGNORECASE
    MULTILINE = M = _re.MULTILINE
    ASCII = A = _re.ASCII
    UNICODE = U = _re.UNICODE
    VERBOSE = X = _re.VERBOSE
    error = _re.error
    Pattern = SymPattern
    Match = SymMatch
    escape = staticmethod(_re.escape)

    def __init__(self):
        self.compiled = []      # every pattern compiled by loaded code
        self._cache = {}

    def compile(self, p, flags=0):
        if isinstance(p, SymPattern):
            return p
        key = (p, int(flags))
        r = self._cache.get(key)
        if r is None:
            r = self._cache[key] = SymPattern(p, flags)
            self.compiled.append(r)
        return r

    def _c(self, pat, flags=0):
        if isinstance(pat, SymPattern):
            return pat
        return self.compile(pat, flags)

    def match(self, pat, string, flags=0):
        return self._c(pat, flags).match(string)

    def fullmatch(self, pat, string, flags=0):
        return self._c(pat, flags).fullmatch(string)

    def search(self, pat, string, flags=0):
        return self._c(pat, flags).search(string)

    def sub(self, pat, repl, string, count=0, flags=0):
        return self._c(pat, flags).sub(repl, string, count)

    def findall(self, pat, string, flags=0):
        return self._c(pat, flags).findall(string)

    def finditer(self, pat, string, flags=0):
        return self._c(pat, flags).finditer(string)
