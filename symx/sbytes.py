"""Symbolic byte strings: concatenations of slices [lo, hi) of byte sources
whose bounds are z3 Int terms.  Slicing never touches contents."""
import z3
from . import core
from .core import (Unsupported, guard, wrapint, wrapbool, toint, rclamp,
                   SymInt, SymBool)


class Stream:
    """A byte source: concrete-position cells over a default, plus
    relocatable segments whose start is a symbolic Int.

    default: an int (every other byte has that value) or 'free' (every other
    byte is an unconstrained byte: uninterpreted function of the position).
    """
    def __init__(self, name, cells=None, default=0, segs=None):
        self.name = name
        self.cells = dict(cells or {})   # pos -> z3 Int term or int
        self.default = default
        self.segs = list(segs or [])     # [(start_term, [values])]
        self._arr = None
        self._hi = self._lo = None
        self.fn = z3.Function(name + '_f', z3.IntSort(), z3.IntSort()) \
            if default == 'free' else None
        self.reads = []                  # index terms read through fn

    def _free(self, idx):
        E = core.ENG
        t = self.fn(idx)
        key = ('freeread', self.name, idx.get_id())
        seen = E.__dict__.setdefault('_freeseen', None)
        if seen is None or seen[0] is not E.pc:
            seen = (E.pc, set())
            E._freeseen = seen
        if key not in seen[1]:
            seen[1].add(key)
            E.add_unary(z3.And(t >= 0, t <= 255))
            self.reads.append(idx)
        E.bytes_ids.add(t.get_id())
        return t

    def _cells_at(self, idx):
        E = core.ENG
        if z3.is_int_value(idx):
            p = idx.as_long()
            v = self.cells.get(p)
            if v is None:
                if self.default == 'free':
                    return self._free(idx)
                return z3.IntVal(self.default)
            return z3.IntVal(v) if isinstance(v, int) else v
        if self.default == 'free':
            res = self._free(idx)
        else:
            res = z3.IntVal(self.default)
        if not self.cells:
            return res
        if self._hi is None:
            self._hi = max(self.cells) + 1
            self._lo = min(self.cells)
        if E.valid(z3.Or(idx >= self._hi, idx < self._lo)):
            return res
        # symbolic position over concrete cells: only cells it can reach
        for p, v in self.cells.items():
            if E.possible(idx == p):
                res = z3.If(idx == p,
                            z3.IntVal(v) if isinstance(v, int) else v, res)
        return res

    def at(self, idx):
        E = core.ENG
        idx = z3.simplify(idx)
        if not self.segs and z3.is_int_value(idx):
            return self._cells_at(idx)
        res = None
        pending = []

        def val(v):
            return z3.IntVal(v) if isinstance(v, int) else v

        def chain(d, vals):
            sel = val(vals[-1])
            for k in range(len(vals) - 2, -1, -1):
                sel = z3.If(d == k, val(vals[k]), sel)
            return sel
        for seg in reversed(self.segs):
            start, vals = seg[0], seg[1]
            lb = seg[2] if len(seg) > 2 else None
            d = z3.simplify(idx - start)
            if z3.is_int_value(d):
                k = d.as_long()
                if 0 <= k < len(vals):
                    res = val(vals[k])
                    break
                continue
            if lb is not None and z3.is_int_value(idx) and \
                    idx.as_long() < lb and E.valid(start >= lb):
                continue
            inside = z3.And(d >= 0, d < len(vals))
            if E.valid(z3.Not(inside)):
                continue
            if E.valid(inside):
                u = E.unique_value(d)
                res = val(vals[u]) if u is not None else chain(d, vals)
                break
            pending.append((inside, chain(d, vals)))
        if res is None:
            if not z3.is_int_value(idx) and not pending:
                u = E.unique_value(idx)
                if u is not None:
                    idx = z3.IntVal(u)
            res = self._cells_at(idx)
        for inside, sel in reversed(pending):
            res = z3.If(inside, sel, res)
        return res

    def extent(self, model):
        """1 + the highest position that carries explicit content"""
        def ev(t):
            if isinstance(t, int):
                return t
            return model.eval(t, model_completion=True).as_long()
        hi = 0
        for idx in self.reads:
            hi = max(hi, ev(idx) + 1)
        if self.cells:
            hi = max(hi, max(self.cells) + 1)
        for seg in self.segs:
            hi = max(hi, ev(seg[0]) + len(seg[1]))
        return hi

    def concretize(self, model, n):
        """bytes of length n under `model` (unread free bytes are 0)"""
        def ev(t):
            if isinstance(t, int):
                return t
            return model.eval(t, model_completion=True).as_long()
        fill = self.default if isinstance(self.default, int) else 0
        out = bytearray([fill]) * n if n else bytearray()
        for idx in self.reads:
            p = ev(idx)
            if 0 <= p < n:
                out[p] = ev(self.fn(idx)) & 255
        for p, v in self.cells.items():
            if 0 <= p < n:
                out[p] = ev(v) & 255
        for seg in self.segs:
            s = ev(seg[0])
            for k, v in enumerate(seg[1]):
                if 0 <= s + k < n:
                    out[s + k] = ev(v) & 255
        return bytes(out)


class Lit(Stream):
    def __init__(self, b):
        Stream.__init__(self, 'lit', {i: v for i, v in enumerate(b)})
        self.b = b


_LITS = {}


def lit_base(b):
    r = _LITS.get(b)
    if r is None:
        r = _LITS[b] = Lit(b)
    return r


class SymBytes:
    """concatenation of slices [lo,hi) of byte sources; lo<=hi always"""
    def __init__(self, parts):
        self.parts = parts    # list of (base, lo, hi) z3 Int terms

    @staticmethod
    def lit(b):
        if not b:
            return SymBytes([])
        return SymBytes([(lit_base(bytes(b)), z3.IntVal(0),
                          z3.IntVal(len(b)))])

    @staticmethod
    def of(stream, lo, hi):
        return SymBytes([(stream, core._zi(toint(lo)),
                          core._zi(toint(hi)))]).norm()

    def len_t(self):
        t = z3.IntVal(0)
        for _b, lo, hi in self.parts:
            t = t + (hi - lo)
        return z3.simplify(t)

    def __len__(self):
        raise Unsupported('real len() on SymBytes (builtin len not shimmed)')

    def sym_len(self):
        return wrapint(self.len_t())

    def __bool__(self):
        return core.ENG.branch(self.len_t() > 0)

    def _slice(self, start, stop):
        out = []
        off = z3.IntVal(0)
        for b, lo, hi in self.parts:
            n = z3.simplify(hi - lo)
            a = rclamp(start - off, 0, n)
            z = rclamp(stop - off, a, n)
            nlo, nhi = z3.simplify(lo + a), z3.simplify(lo + z)
            if not (z3.is_int_value(nlo) and z3.is_int_value(nhi) and
                    nlo.as_long() == nhi.as_long()):
                out.append((b, nlo, nhi))
            off = off + n
        return SymBytes(out).norm()

    def norm(self):
        """drop provably-empty parts, merge provably-adjacent parts"""
        E = core.ENG
        out = []
        for b, lo, hi in self.parts:
            if not z3.is_int_value(lo):
                u = E.unique_value(lo)
                if u is not None:
                    hi = z3.simplify(hi - lo + u)
                    lo = z3.IntVal(u)
            if E.valid(lo == hi):
                continue
            if out and out[-1][0] is b and E.valid(out[-1][2] == lo):
                out[-1] = (b, out[-1][1], hi)
            else:
                out.append((b, lo, hi))
        self.parts = out
        return self

    @guard
    def __getitem__(self, k):
        E = core.ENG
        L = self.len_t()
        if isinstance(k, slice):
            if k.step is not None:
                raise Unsupported('slice step')

            def nrm(x, dflt):
                if x is None:
                    return dflt
                x = toint(x)
                if E.valid(x >= 0):
                    return rclamp(x, 0, L)
                if E.branch(x < 0):
                    return rclamp(x + L, 0, L)
                return rclamp(x, 0, L)
            start = nrm(k.start, z3.IntVal(0))
            stop = nrm(k.stop, L)
            stop = rclamp(stop, start, L)
            return self._slice(z3.simplify(start), z3.simplify(stop))
        i = toint(k)
        if not E.branch(z3.And(i >= -L, i < L)):
            raise core.deliberate(IndexError('index out of range'))
        if not E.valid(i >= 0):
            if E.branch(i < 0):
                i = i + L
        return wrapint(self.at(z3.simplify(i)))

    def at(self, i):
        """byte term at index i (0 <= i < len assumed)"""
        E = core.ENG
        off = z3.IntVal(0)
        chain = []
        for b, lo, hi in self.parts:
            n = hi - lo
            chain.append((z3.simplify(i < off + n), b,
                          z3.simplify(lo + i - off)))
            off = off + n
        if not chain:
            raise core.EngineError('at() on empty SymBytes')
        if len(chain) == 1:
            return chain[0][1].at(chain[0][2])
        # resolve which part holds index i against the path condition
        for cond, b, idx in chain[:-1]:
            if E.valid(cond):
                return b.at(idx)
            if E.valid(z3.Not(cond)):
                continue
            if E.branch(cond):
                return b.at(idx)
        return chain[-1][1].at(chain[-1][2])

    @guard
    def __add__(self, o):
        o = asbytes(o)
        return SymBytes(self.parts + o.parts).norm()

    @guard
    def __radd__(self, o):
        return asbytes(o).__add__(self)

    def __mul__(self, n):
        raise Unsupported('SymBytes * n')

    def struct_eq(self, o):
        """structural equality: same sources with provably equal bounds"""
        E = core.ENG
        a, b = self.norm().parts, asbytes(o).norm().parts
        return len(a) == len(b) and all(
            x[0] is y[0] and E.valid(z3.And(x[1] == y[1], x[2] == y[2]))
            for x, y in zip(a, b))

    def eq_t(self, o):
        E = core.ENG
        o = asbytes(o)
        L1, L2 = self.len_t(), o.len_t()
        if self.struct_eq(o):
            return z3.BoolVal(True)
        if E.valid(L1 != L2):
            return z3.BoolVal(False)
        n = E.unique_value(L2)
        if n is None:
            n = E.unique_value(L1)
        if n is not None and n <= 2048:
            if not E.valid(L1 == L2):
                if not E.branch(L1 == L2):
                    return z3.BoolVal(False)
            cs = []
            for k in range(n):
                a = z3.simplify(self.at(z3.IntVal(k)))
                b = z3.simplify(o.at(z3.IntVal(k)))
                if z3.is_int_value(a) and z3.is_int_value(b):
                    if a.as_long() != b.as_long():
                        return z3.BoolVal(False)
                    continue
                cs.append(a == b)
            return z3.And(*cs) if cs else z3.BoolVal(True)
        raise Unsupported('content equality of unbounded-length bytes')

    @guard
    def __eq__(self, o):
        if isinstance(o, (bytes, SymBytes)):
            return wrapbool(self.eq_t(o))
        return False

    @guard
    def __ne__(self, o):
        r = self.__eq__(o)
        if isinstance(r, SymBool):
            return wrapbool(z3.Not(r.t))
        return not r

    def __hash__(self):
        raise Unsupported('hash of SymBytes')

    @guard
    def startswith(self, p):
        if not isinstance(p, bytes):
            raise Unsupported('startswith non-literal')
        E = core.ENG
        L = self.len_t()
        if not E.branch(L >= len(p)):
            return False
        cs = []
        for k in range(len(p)):
            a = z3.simplify(self.at(z3.IntVal(k)))
            if z3.is_int_value(a):
                if a.as_long() != p[k]:
                    return False
                continue
            cs.append(a == p[k])
        return wrapbool(z3.And(*cs)) if cs else True

    def __iter__(self):
        raise Unsupported('iteration over SymBytes')

    def _known_len(self, what):
        L = core.ENG.unique_value(self.len_t())
        if L is None:
            raise Unsupported('%s on symbolic-length bytes' % what)
        return L

    @guard
    def index(self, sub):
        if sub != b'\x00':
            raise Unsupported('bytes.index of %r' % (sub,))
        E = core.ENG
        Lt = self.len_t()
        L = E.unique_value(Lt)
        i = 0
        while True:
            if L is not None:
                if i >= L:
                    break
            elif not E.branch(Lt > i):
                break
            t = z3.simplify(self.at(z3.IntVal(i)))
            if z3.is_int_value(t):
                if t.as_long() == 0:
                    return i
            elif E.branch(t == 0):
                return i
            i += 1
            if i > 4096 and L is None:
                raise Unsupported('index over a long symbolic-length buffer')
        raise core.deliberate(ValueError('subsection not found'))

    @guard
    def decode(self, enc='utf-8', errors='strict'):
        from .sstr import SymStr, SymChar, LazyTailStr
        if enc != 'ascii' or errors != 'strict':
            raise Unsupported('decode(%r, %r)' % (enc, errors))
        E = core.ENG
        Lt = self.len_t()
        L = E.unique_value(Lt)
        lmin = L
        if L is None:
            # symbolic length: decode the certain prefix eagerly, the rest
            # lazily (only legal when the possible tail is concrete ASCII)
            lmin = 0
            while E.valid(Lt > lmin):
                lmin += 1
                if lmin > 8192:
                    raise Unsupported('decode: long symbolic-length buffer')
        out = []
        for i in range(lmin):
            t = z3.simplify(self.at(z3.IntVal(i)))
            if z3.is_int_value(t):
                v = t.as_long()
                if v >= 128:
                    raise core.deliberate(UnicodeDecodeError(
                        'ascii', b'', i, i + 1, 'ordinal not in range(128)'))
                out.append(v)
            else:
                ch = SymChar.of_term(t, _BYTE)
                if ch.in_set(_HIGH):
                    raise core.deliberate(UnicodeDecodeError(
                        'ascii', b'', i, i + 1, 'ordinal not in range(128)'))
                out.append(ch)
        if L is not None:
            return SymStr(out)
        lmax = None
        for cand in (512, 1024, 4096, 65536, 1 << 20):
            if E.valid(Lt <= cand):
                lmax = cand
                break
        if lmax is None:
            raise Unsupported('decode: unbounded symbolic length')
        tail = []
        for i in range(lmin, lmax):
            t = z3.simplify(self.at(z3.IntVal(i)))
            if not z3.is_int_value(t) or t.as_long() >= 128:
                raise Unsupported('decode: symbolic-length buffer whose '
                                  'tail is not concrete ASCII')
            tail.append(t.as_long())
        return LazyTailStr(out, tail, Lt, lmin)

    def concretize(self, model):
        out = b''
        for b, lo, hi in self.parts:
            l = model.eval(lo, model_completion=True).as_long()
            h = model.eval(hi, model_completion=True).as_long()
            if isinstance(b, Lit):
                out += b.b[l:h]
            else:
                out += b.concretize(model, h)[l:h]
        return out

    def __repr__(self):
        return 'SymBytes(%s)' % ', '.join(
            '%s[%s:%s]' % (b.name, lo, hi) for b, lo, hi in self.parts)


_HIGH = frozenset(range(128, 256))
_BYTE = frozenset(range(256))


def asbytes(x):
    if isinstance(x, SymBytes):
        return x
    if isinstance(x, (bytes, bytearray)):
        return SymBytes.lit(bytes(x))
    raise Unsupported('asbytes %r' % type(x))
