"""symx core: symbolic execution of real Python source by proxy values + z3.

Depth-first exploration by re-execution with a decision prefix.  See
/verif/DESIGN.md section 3.
"""
import time
import z3


class Unsupported(BaseException):
    """The code under test did something the proxies cannot model."""


class PathAbort(BaseException):
    """Infeasible path / infeasible assumption."""


class PathCut(BaseException):
    """Path reached the split depth of a coordinator run."""


class EngineError(BaseException):
    """A failure inside the engine or a proxy (never an exception of the
    code under test)."""


class Stop(BaseException):
    """Stop exploring (budget / enough violations)."""


import os as _os
_SLOWLOG = _os.environ.get('SYMX_SLOWLOG')
RNE = z3.RNE()
F64 = z3.Float64()


def _key(t):
    return t.get_id()


class Violation:
    def __init__(self, label, model, decisions, info=None):
        self.label = label
        self.model = model
        self.decisions = decisions
        self.info = info


class Engine:
    def __init__(self, solver_timeout_ms=120000):
        self.prefix = []          # list of [taken, alt_untried]
        self.nforced = 0
        self.split_depth = None
        self.cuts = []
        self.qcache = {}
        self._varcache = {}
        self.solver_timeout_ms = solver_timeout_ms
        # counters
        self.nq = 0
        self.nhit = 0
        self.tq = 0.0
        self.paths = 0
        self.aborted = 0
        self.decisions = 0
        self.obligations = 0
        self.discharged = 0
        self.violations = []
        self.inconclusive = []
        self.max_violations = 3
        self.deadline = None
        self._reset_path()

    # ------------------------------------------------------------ per path
    def _reset_path(self):
        self.idx = 0
        self.qn = 0
        self.pc = []
        self.fresh_n = 0
        self.dom = {}
        self.entangled = set()
        self.inputs = {}          # name -> (kind, payload) registered by ctx
        self.proxy_error = None
        self.goals = set()
        self.obj_counter = 0
        self.bytes_ids = set()
        self.pcset = {}
        self._uv = {}
        self._vm = {}
        self._last_model = None
        self._dkey = tuple(d[0] for d in self.prefix[:0])

    def _cur_key(self):
        return tuple(d[0] for d in self.prefix[:self.idx])

    # ------------------------------------------------------------ solver
    def _vars(self, t):
        k = t.get_id()
        r = self._varcache.get(k)
        if r is not None:
            return r[0]
        r = set()
        seen = set()
        stack = [t]
        while stack:
            x = stack.pop()
            i = x.get_id()
            if i in seen:
                continue
            seen.add(i)
            if z3.is_app(x):
                d = x.decl()
                if d.kind() == z3.Z3_OP_UNINTERPRETED:
                    r.add(d.name())
                stack.extend(x.children())
        self._varcache[k] = (r, t)
        return r

    def check(self, *extra, full=False):
        """Is pc /\\ extra satisfiable?  Cached per (decision prefix,
        ordinal in the current decision segment); independence-sliced."""
        key = (self._cur_key(), self.qn, full)
        if isinstance(self.qn, int):
            self.qn += 1
        h = tuple(x.hash() for x in extra)
        hit = self.qcache.get(key)
        if hit is not None:
            if hit[2] != h:
                raise EngineError('nondeterministic replay: query differs '
                                  'from the cached one at %r' % (key,))
            self.nhit += 1
            self._last_model = hit[1]
            return hit[0]
        if full or not extra:
            chosen = list(self.pc) + list(extra)
        else:
            need = set()
            for x in extra:
                need |= self._vars(x)
            cons = [(c, self._vars(c)) for c in self.pc]
            chosen = list(extra)
            used = [False] * len(cons)
            changed = True
            while changed:
                changed = False
                for i, (c, vs) in enumerate(cons):
                    if not used[i] and (not vs or vs & need):
                        used[i] = True
                        need |= vs
                        chosen.append(c)
                        changed = True
        t = time.time()
        s = z3.Solver()
        s.set('timeout', self.solver_timeout_ms)
        cref, sref = s.ctx.ref(), s.solver
        for c in chosen:
            z3.Z3_solver_assert(cref, sref, c.as_ast())
        r = s.check()
        dt = time.time() - t
        self.tq += dt
        self.nq += 1
        if _SLOWLOG and dt > 0.05:
            with open(_SLOWLOG, 'a') as f:
                f.write('---- %.3fs %s n=%d\n%s\n' % (
                    dt, r, len(chosen), s.sexpr()[:6000]))
        if r == z3.unknown:
            raise Unsupported('solver answered unknown (%s) after %.1fs'
                              % (s.reason_unknown(), dt))
        m = s.model() if r == z3.sat else None
        self._last_model = m
        self.qcache[key] = (r == z3.sat, m, h)
        return r == z3.sat

    @staticmethod
    def _lit(c):
        pol = True
        while z3.is_not(c):
            c = c.arg(0)
            pol = not pol
        return c.get_id(), pol

    def _note(self, c):
        i, pol = self._lit(c)
        self.pcset[i] = pol

    def add(self, c):
        # any constraint that did not go through branch_char may cut a
        # character's domain: from now on ask the solver for those chars
        vs = self._vars(c)
        if vs:
            self.entangled |= vs
        self.pc.append(c)
        self._note(c)

    def add_unary(self, c):
        self.pc.append(c)
        self._note(c)

    def known(self, c):
        """True/False if c (or its negation) is literally in the path
        condition, else None"""
        i, pol = self._lit(c)
        r = self.pcset.get(i)
        return None if r is None else (r == pol)

    def assume(self, c):
        c = tobool(c)
        if isinstance(c, bool):
            if not c:
                raise PathAbort()
            return
        c = z3.simplify(c)
        if z3.is_true(c):
            return
        if z3.is_false(c):
            raise PathAbort()
        self.add(c)
        if not self.check(c):
            raise PathAbort()

    def valid(self, c):
        """Is c implied by the path condition?"""
        if isinstance(c, bool):
            return c
        c = z3.simplify(c)
        if z3.is_true(c):
            return True
        if z3.is_false(c):
            return False
        k = self.known(c)
        if k is not None:
            return k
        tid = c.get_id()
        memo = self._vm.get(tid)
        if memo is not None and (memo[0] or memo[1] == len(self.pc)):
            return memo[0]
        r = not self.check(z3.Not(c))
        self._vm[tid] = (r, len(self.pc), c)
        return r

    def possible(self, c):
        if isinstance(c, bool):
            return c
        c = z3.simplify(c)
        if z3.is_true(c):
            return True
        if z3.is_false(c):
            return False
        return self.check(c)

    def branch(self, c, known=None, unary=False):
        if isinstance(c, bool):
            return c
        c = z3.simplify(c)
        if z3.is_true(c):
            return True
        if z3.is_false(c):
            return False
        k = self.known(c)
        if k is not None:
            return k
        if time.time() > (self.deadline or 1e18):
            raise Stop('deadline')
        addf = self.add_unary if unary else self.add
        i = self.idx
        if i < len(self.prefix):
            self.idx += 1
            self.qn = 0
            taken = self.prefix[i][0]
            addf(c if taken else z3.Not(c))
            return taken
        if known is None:
            self.qn = ('b', 0)
            st = self.check(c)
            self.qn = ('b', 1)
            sf = self.check(z3.Not(c))
        else:
            st, sf = known
        if not st and not sf:
            raise PathAbort()
        if st and sf and self.split_depth is not None \
                and i >= self.split_depth:
            raise PathCut()
        # forced outcomes are recorded too (alt_untried False) so that a
        # replay consumes exactly one prefix entry per branch point
        self.prefix.append([st, st and sf])
        if st and sf:
            self.decisions += 1
        self.idx += 1
        self.qn = 0
        addf(c if st else z3.Not(c))
        return st

    def branch_char(self, var, allowed):
        """Branch on membership of the symbolic character `var` (a z3 Int
        const) in the python set `allowed`, using the per-path domain."""
        name = var.decl().name()
        d = self.dom.get(name)
        if d is None:
            raise EngineError('character %s has no domain' % name)
        inter = d & allowed
        if not inter:
            return False
        if len(inter) == len(d):
            return True
        term = set_term(var, inter, d)
        if name in self.entangled:
            r = self.branch(term)
        else:
            r = self.branch(term, known=(True, True), unary=True)
        self.dom[name] = inter if r else (d - allowed)
        return r

    def unique_value(self, term):
        """python int if `term` has a single value under pc, else None"""
        term = z3.simplify(term)
        if z3.is_int_value(term):
            return term.as_long()
        tid = term.get_id()
        memo = self._uv.get(tid)
        if memo is not None and (memo[0] is not None or
                                 memo[1] == len(self.pc)):
            return memo[0]
        probe = z3.Int('__probe')
        if not self.check(probe == term):
            raise PathAbort()
        v = self._last_model.eval(probe, model_completion=True)
        if self.check(term != v):
            self._uv[tid] = (None, len(self.pc), term)
            return None
        self._uv[tid] = (v.as_long(), len(self.pc), term)
        return v.as_long()

    def fresh(self, name, sort=None):
        self.fresh_n += 1
        n = '%s!%d' % (name, self.fresh_n)
        if sort is None:
            return z3.Int(n)
        return z3.Const(n, sort)

    def next_obj_id(self):
        self.obj_counter += 1
        return self.obj_counter

    def path_model(self):
        """A model of the complete path condition (no slicing)."""
        self.qn = ('m', 0)
        ok = self.check(full=True)
        if not ok:
            raise PathAbort()
        return self._last_model

    # ------------------------------------------------------------ obligations
    def require(self, label, cond, info=None):
        """Obligation: `cond` must hold on every input of this path."""
        self.obligations += 1
        c = tobool(cond)
        if isinstance(c, bool):
            if c:
                self.discharged += 1
                return True
            m = self.path_model()
            self._violate(label, m, info)
            raise PathAbort()
        c = z3.simplify(c)
        if z3.is_true(c):
            self.discharged += 1
            return True
        if not self.check(z3.Not(c)):
            self.discharged += 1
            return True
        # counterexample: model of the *whole* pc plus the negation
        q0 = self.qn if isinstance(self.qn, int) else 0
        self.qn = ('v', self.obligations)
        if not self.check(z3.Not(c), full=True):
            raise EngineError('sliced query sat but full query unsat')
        self._violate(label, self._last_model, info)
        # continue on the side where the obligation holds
        self.qn = ('w', self.obligations)
        self.add(c)
        ok = self.check(c)
        self.qn = q0 + 1        # back to integer ordinals for what follows
        if not ok:
            raise PathAbort()
        return False

    def _violate(self, label, model, info):
        self.violations.append(
            Violation(label, model, self._cur_key(), info))

    # ------------------------------------------------------------ exploration
    def explore(self, fn, forced=(), split_depth=None, on_path=None,
                max_paths=None):
        """Run fn() on every feasible path.  on_path(result) is called
        inside the path context (pc still valid) for completed paths."""
        self.prefix = [[bool(b), False] for b in forced]
        self.nforced = len(self.prefix)
        self.split_depth = split_depth
        try:
            while True:
                self._reset_path()
                try:
                    out = fn()
                    if self.proxy_error is not None:
                        raise EngineError(self.proxy_error)
                    self.paths += 1
                    if on_path is not None:
                        on_path(out)
                except PathAbort:
                    self.aborted += 1
                except PathCut:
                    self.cuts.append(self._cur_key())
                except (Unsupported, EngineError) as e:
                    import traceback
                    self.inconclusive.append(
                        (self._cur_key(), type(e).__name__ + ': ' + str(e),
                         ''.join(traceback.format_exception(e))[-3000:]))
                    if len(self.inconclusive) >= 5:
                        break
                while (len(self.prefix) > self.nforced and
                       not self.prefix[-1][1]):
                    self.prefix.pop()
                if len(self.prefix) == self.nforced:
                    break
                last = self.prefix[-1]
                last[0] = not last[0]
                last[1] = False
                if max_paths and self.paths >= max_paths:
                    self.inconclusive.append(((), 'path budget exhausted', ''))
                    break
        except Stop as s:
            if str(s) == 'deadline':
                self.inconclusive.append(((), 'time budget exhausted', ''))
        return self

    def stats(self):
        return dict(paths=self.paths, aborted=self.aborted,
                    decisions=self.decisions, queries=self.nq,
                    cache_hits=self.nhit, solver_s=round(self.tq, 3),
                    obligations=self.obligations, discharged=self.discharged)


ENG = None


def eng():
    return ENG


def set_engine(e):
    global ENG
    ENG = e
    return e


def set_term(ch, s, universe=None):
    """z3 membership of Int term `ch` in the python set `s`
    (interval-compressed).  With `universe`, gaps outside the universe are
    ignored when forming intervals."""
    if not s:
        return z3.BoolVal(False)
    xs = sorted(s)
    ivs = []
    if universe is not None:
        u = sorted(universe)
        pos = {x: i for i, x in enumerate(u)}
        for x in xs:
            if ivs and pos[ivs[-1][1]] == pos[x] - 1:
                ivs[-1][1] = x
            else:
                ivs.append([x, x])
    else:
        for x in xs:
            if ivs and ivs[-1][1] == x - 1:
                ivs[-1][1] = x
            else:
                ivs.append([x, x])
    parts = [(ch == a) if a == b else z3.And(ch >= a, ch <= b)
             for a, b in ivs]
    return parts[0] if len(parts) == 1 else z3.Or(*parts)


# ---------------------------------------------------------------- proxies
def guard(fn):
    """Wrap a proxy method: any ordinary exception raised inside it is an
    engine failure, not an exception of the code under test."""
    import functools

    @functools.wraps(fn)
    def w(*a, **k):
        try:
            return fn(*a, **k)
        except (Unsupported, PathAbort, PathCut, EngineError, Stop):
            raise
        except Exception as e:       # noqa
            if getattr(e, '_symx_deliberate', False):
                raise
            if ENG is not None:
                ENG.proxy_error = '%s in %s: %s' % (
                    type(e).__name__, fn.__qualname__, e)
            raise EngineError('%s in proxy method %s: %s' % (
                type(e).__name__, fn.__qualname__, e))
    return w


class ProgramError(Exception):
    pass


# exceptions proxies raise *on purpose* on behalf of the modelled type
class _Deliberate:
    pass


_PASS = ()


def deliberate(exc):
    """mark an exception instance as deliberately raised by a model"""
    exc._symx_deliberate = True
    return exc


def tobool(x):
    if isinstance(x, SymBool):
        return x.t
    if isinstance(x, z3.BoolRef):
        return x
    if isinstance(x, SymInt):
        return x.t != 0
    return bool(x)


def toint(x):
    if isinstance(x, SymInt):
        return x.t
    if isinstance(x, SymBool):
        return z3.If(x.t, z3.IntVal(1), z3.IntVal(0))
    if isinstance(x, bool):
        return z3.IntVal(int(x))
    if isinstance(x, int):
        return z3.IntVal(x)
    if isinstance(x, z3.ArithRef):
        return x
    raise Unsupported('toint %r' % type(x))


class SymBool:
    __slots__ = ('t',)

    def __init__(self, t):
        self.t = t

    def __bool__(self):
        return ENG.branch(self.t)

    def __eq__(self, o):
        if isinstance(o, (bool, SymBool)):
            return wrapbool(self.t == tobool(o))
        return False

    def __ne__(self, o):
        if isinstance(o, (bool, SymBool)):
            return wrapbool(self.t != tobool(o))
        return True

    def __hash__(self):
        raise Unsupported('hash of SymBool')

    def __and__(self, o):
        return wrapbool(z3.And(self.t, tobool(o)))
    __rand__ = __and__

    def __or__(self, o):
        return wrapbool(z3.Or(self.t, tobool(o)))
    __ror__ = __or__

    def __invert__(self):
        raise Unsupported('~SymBool')

    def __int__(self):
        return SymInt(toint(self))

    def __repr__(self):
        return 'SymBool(%s)' % self.t


def wrapint(t):
    t = z3.simplify(t)
    if z3.is_int_value(t):
        return t.as_long()
    return SymInt(t)


def wrapbool(t):
    if isinstance(t, bool):
        return t
    t = z3.simplify(t)
    if z3.is_true(t):
        return True
    if z3.is_false(t):
        return False
    return SymBool(t)


def NOT(x):
    if isinstance(x, SymBool):
        return wrapbool(z3.Not(x.t))
    if isinstance(x, z3.BoolRef):
        return wrapbool(z3.Not(x))
    return not x


def AND(*xs):
    ts = [tobool(x) for x in xs]
    if any(t is False for t in ts):
        return False
    ts = [t for t in ts if t is not True]
    if not ts:
        return True
    return wrapbool(z3.And(*ts))


def OR(*xs):
    ts = [tobool(x) for x in xs]
    if any(t is True for t in ts):
        return True
    ts = [t for t in ts if t is not False]
    if not ts:
        return False
    return wrapbool(z3.Or(*ts))


def IMPLIES(a, b):
    return OR(NOT(a), b)


def ITE(c, a, b):
    c = tobool(c)
    if isinstance(c, bool):
        return a if c else b
    if isinstance(a, (int, SymInt)) and isinstance(b, (int, SymInt)) and \
            not isinstance(a, bool) and not isinstance(b, bool):
        return wrapint(z3.If(c, toint(a), toint(b)))
    if isinstance(a, (bool, SymBool)) and isinstance(b, (bool, SymBool)):
        return wrapbool(z3.If(c, tobool(a), tobool(b)))
    if isinstance(a, (float, SymFloat)) or isinstance(b, (float, SymFloat)):
        return wrapfloat(z3.If(c, tofloat(a), tofloat(b)))
    raise Unsupported('ITE over %r/%r' % (type(a), type(b)))


def _num(o):
    return isinstance(o, (int, SymInt, SymBool))


def _pow2(n):
    return n > 0 and (n & (n - 1)) == 0


class SymInt:
    __slots__ = ('t',)

    def __init__(self, t):
        self.t = t

    def __add__(s, o):
        if isinstance(o, SymFloat) or isinstance(o, float):
            return NotImplemented
        return wrapint(s.t + toint(o)) if _num(o) else NotImplemented
    __radd__ = __add__

    def __sub__(s, o):
        if isinstance(o, float):
            return NotImplemented
        return wrapint(s.t - toint(o)) if _num(o) else NotImplemented

    def __rsub__(s, o):
        if isinstance(o, float):
            return NotImplemented
        return wrapint(toint(o) - s.t) if _num(o) else NotImplemented

    def __mul__(s, o):
        if isinstance(o, float):
            return NotImplemented
        return wrapint(s.t * toint(o)) if _num(o) else NotImplemented
    __rmul__ = __mul__

    def __neg__(s):
        return wrapint(-s.t)

    def __pos__(s):
        return s

    def __abs__(s):
        return wrapint(z3.If(s.t < 0, -s.t, s.t))

    def __floordiv__(s, o):
        if isinstance(o, int) and not isinstance(o, bool) and o > 0:
            return wrapint(s.t / o)      # z3 Int div: floor for positive o
        raise Unsupported('floordiv by %r' % (o,))

    def __mod__(s, o):
        if isinstance(o, int) and not isinstance(o, bool) and o > 0:
            return wrapint(s.t % o)
        raise Unsupported('mod by %r' % (o,))

    def __divmod__(s, o):
        return (s // o, s % o)

    def __truediv__(s, o):
        return tofloat_obj(s) / o

    def __rtruediv__(s, o):
        return tofloat_obj(o) / tofloat_obj(s)

    def _nonneg(s, what):
        if syn_nonneg(s.t):
            return
        if not ENG.valid(s.t >= 0):
            if ENG.branch(s.t < 0):
                raise Unsupported('%s on a possibly negative symbolic int'
                                  % what)

    def __and__(s, o):
        if isinstance(o, int) and not isinstance(o, bool):
            if o >= 0:
                s._nonneg('&')
                # contiguous low mask
                if _pow2(o + 1):
                    return wrapint(s.t % (o + 1))
                r = z3.IntVal(0)
                j = 0
                while (o >> j):
                    if (o >> j) & 1:
                        # run of ones
                        k = j
                        while (o >> k) & 1:
                            k += 1
                        r = r + (2 ** j) * ((s.t / (2 ** j)) % (2 ** (k - j)))
                        j = k
                    else:
                        j += 1
                return wrapint(r)
            # negative mask: x & m == x - (x & ~m) for x >= 0
            return s - (s & ~o)
        raise Unsupported('symbolic & symbolic')
    __rand__ = __and__

    def __or__(s, o):
        if isinstance(o, int) and not isinstance(o, bool) and o >= 0:
            return s + o - (s & o)
        raise Unsupported('symbolic | %r' % (o,))
    __ror__ = __or__

    def __xor__(s, o):
        if isinstance(o, int) and not isinstance(o, bool) and o >= 0:
            return s + o - 2 * (s & o)
        if isinstance(o, SymInt):
            r = _xor_disjoint(s, o)
            if r is None:
                r = _xor_disjoint(o, s)
            if r is None:
                r = _bvop(s, o, lambda a, b: a ^ b)
            return r
        raise Unsupported('symbolic ^ %r' % (o,))
    __rxor__ = __xor__

    def __rshift__(s, o):
        if isinstance(o, int) and o >= 0:
            return wrapint(s.t / (2 ** o))
        raise Unsupported('>> by symbolic')

    def __lshift__(s, o):
        if isinstance(o, int) and o >= 0:
            return wrapint(s.t * (2 ** o))
        raise Unsupported('<< by symbolic')

    def __invert__(s):
        return wrapint(-s.t - 1)

    def _cmp(s, o, f):
        if isinstance(o, (float, SymFloat)):
            return NotImplemented
        if not _num(o):
            return NotImplemented
        return wrapbool(f(s.t, toint(o)))

    def __lt__(s, o):
        return s._cmp(o, lambda a, b: a < b)

    def __le__(s, o):
        return s._cmp(o, lambda a, b: a <= b)

    def __gt__(s, o):
        return s._cmp(o, lambda a, b: a > b)

    def __ge__(s, o):
        return s._cmp(o, lambda a, b: a >= b)

    def __eq__(s, o):
        if _num(o):
            return wrapbool(s.t == toint(o))
        if isinstance(o, (float, SymFloat)):
            return tofloat_obj(s) == o
        return False

    def __ne__(s, o):
        if _num(o):
            return wrapbool(s.t != toint(o))
        if isinstance(o, (float, SymFloat)):
            return tofloat_obj(s) != o
        return True

    def __hash__(s):
        raise Unsupported('hash of SymInt')

    def __bool__(s):
        return ENG.branch(s.t != 0)

    def _fmt(s, what):
        from . import env
        if env.in_message_context():
            return True
        raise Unsupported('%s of a symbolic int outside message formatting'
                          % what)

    def __index__(s):
        s._fmt('__index__')
        return 0

    def __int__(s):
        s._fmt('__int__')
        return 0

    def __str__(s):
        s._fmt('__str__')
        return '<sym>'

    def __format__(s, spec):
        s._fmt('__format__')
        return '<sym>'

    def __repr__(s):
        return 'SymInt(%s)' % s.t


def _xor_disjoint(x, y):
    """x ^ y for symbolic x, y >= 0 when x is a multiple of 2**k: the low k
    bits are those of y, and the high part is x/2**k ^ y/2**k, which is
    x/2**k itself when y < 2**k (decided by a branch) or an xor with a
    constant when y/2**k has a single value on this path.  None if no such
    split is found."""
    if not ENG.valid(z3.And(x.t >= 0, y.t >= 0)):
        return None
    for k in (64, 32, 96, 16, 48, 80, 112, 8):
        if not ENG.valid(x.t % (2 ** k) == 0):
            continue
        yh = y.t / (2 ** k)
        if ENG.branch(yh == 0):
            return x + y
        u = ENG.unique_value(yh)
        if u is None:
            return None
        return (wrapint(x.t / (2 ** k)) ^ u) * (2 ** k) + wrapint(
            y.t % (2 ** k))
    return None


def _bvop(x, y, f, width=128):
    """bit operation on two symbolic non-negative integers below 2**128
    through bit-vectors (int2bv / bv2int); slow, last resort"""
    for v in (x, y):
        if not ENG.valid(z3.And(v.t >= 0, v.t < 2 ** width)):
            raise Unsupported('bit operation on symbolic operands outside '
                              '[0, 2**%d)' % width)
    return wrapint(z3.BV2Int(f(z3.Int2BV(x.t, width),
                               z3.Int2BV(y.t, width))))


def syn_nonneg(t, depth=0):
    """cheap syntactic check that an Int term is >= 0: non-negative
    literals, byte terms registered by the engine, sums/products/div/mod
    of such"""
    if z3.is_int_value(t):
        return t.as_long() >= 0
    if ENG is not None and t.get_id() in ENG.bytes_ids:
        return True
    if depth > 6 or not z3.is_app(t):
        return False
    k = t.decl().kind()
    if k in (z3.Z3_OP_ADD, z3.Z3_OP_MUL):
        return all(syn_nonneg(c, depth + 1) for c in t.children())
    if k in (z3.Z3_OP_IDIV, z3.Z3_OP_MOD):
        ch = t.children()
        return syn_nonneg(ch[0], depth + 1) and syn_nonneg(ch[1], depth + 1)
    return False


class FieldInt(SymInt):
    """a non-negative integer known as a sum of disjoint bit fields
    sum(term_i << shift_i), 0 <= term_i < 2**width_i.  Bit operations with
    constants that respect the field boundaries stay linear (no div/mod on
    the whole value); anything else falls back to SymInt."""
    __slots__ = ('fields',)

    def __init__(self, fields):
        fs = sorted([f for f in fields], key=lambda f: f[1])
        t = z3.IntVal(0)
        for term, sh, w in fs:
            t = t + term * (1 << sh)
        SymInt.__init__(self, z3.simplify(t))
        self.fields = fs

    @staticmethod
    def of_bytes(terms_le):
        """little-endian list of byte terms"""
        return FieldInt([(b, 8 * k, 8) for k, b in enumerate(terms_le)])

    def _wrap(self, fields):
        fields = [f for f in fields if not (
            z3.is_int_value(f[0]) and f[0].as_long() == 0)]
        if not fields:
            return 0
        r = FieldInt(fields)
        if z3.is_int_value(r.t):
            return r.t.as_long()
        return r

    def __and__(s, o):
        if isinstance(o, int) and not isinstance(o, bool) and o >= 0:
            out = []
            for term, sh, w in s.fields:
                m = (o >> sh) & ((1 << w) - 1)
                if m == 0:
                    continue
                if m == (1 << w) - 1:
                    out.append((term, sh, w))
                else:
                    sub = SymInt(term) & m
                    out.append((toint(sub), sh, w))
            return s._wrap(out)
        return SymInt.__and__(s, o)
    __rand__ = __and__

    def __rshift__(s, k):
        if isinstance(k, int) and k >= 0:
            out = []
            for term, sh, w in s.fields:
                if sh >= k:
                    out.append((term, sh - k, w))
                elif sh + w <= k:
                    continue
                else:
                    d = k - sh
                    out.append((z3.simplify(term / (1 << d)), 0, w - d))
            return s._wrap(out)
        return SymInt.__rshift__(s, k)

    def __lshift__(s, k):
        if isinstance(k, int) and k >= 0:
            return s._wrap([(t, sh + k, w) for t, sh, w in s.fields])
        return SymInt.__lshift__(s, k)

    def _ranges(s):
        return [(sh, sh + w) for _t, sh, w in s.fields]

    def __add__(s, o):
        if isinstance(o, FieldInt):
            ok = all(b1 <= a2 or b2 <= a1 for a1, b1 in s._ranges()
                     for a2, b2 in o._ranges())
            if ok:
                return s._wrap(s.fields + o.fields)
        if isinstance(o, int) and not isinstance(o, bool) and o >= 0:
            free = all(((o >> a) & ((1 << (b - a)) - 1)) == 0
                       for a, b in s._ranges())
            if free:
                extra = []
                j = 0
                while (o >> j):
                    if (o >> j) & 1:
                        k = j
                        while (o >> k) & 1:
                            k += 1
                        extra.append((z3.IntVal((o >> j) & (
                            (1 << (k - j)) - 1)), j, k - j))
                        j = k
                    else:
                        j += 1
                return s._wrap(s.fields + extra)
        return SymInt.__add__(s, o)
    __radd__ = __add__

    def __xor__(s, o):
        if isinstance(o, int) and not isinstance(o, bool) and o >= 0:
            out = []
            rest = o
            for term, sh, w in s.fields:
                m = (o >> sh) & ((1 << w) - 1)
                rest &= ~(((1 << w) - 1) << sh)
                if m == 0:
                    out.append((term, sh, w))
                else:
                    out.append((toint(SymInt(term) ^ m), sh, w))
            r = s._wrap(out)
            return r + rest if rest else r
        return SymInt.__xor__(s, o)
    __rxor__ = __xor__


def zmin(a, b):
    return z3.If(a <= b, a, b)


def zmax(a, b):
    return z3.If(a >= b, a, b)


def zclamp(x, lo, hi):
    return zmax(lo, zmin(x, hi))


def _zi(x):
    if isinstance(x, int):
        return z3.IntVal(x)
    return z3.simplify(x)


def rmin(a, b):
    """min resolved against the path condition (forks if undetermined)"""
    a, b = _zi(a), _zi(b)
    if ENG.valid(a <= b):
        return a
    if ENG.valid(b <= a):
        return b
    return a if ENG.branch(a <= b) else b


def rmax(a, b):
    a, b = _zi(a), _zi(b)
    if ENG.valid(a >= b):
        return a
    if ENG.valid(b >= a):
        return b
    return a if ENG.branch(a >= b) else b


def rclamp(x, lo, hi):
    """clamp resolved against the path condition: the result is x, lo or hi
    (never an ite term); precondition lo <= hi"""
    E = ENG
    x, lo, hi = _zi(x), _zi(lo), _zi(hi)
    if E.valid(x <= lo):
        return lo
    if E.valid(x >= hi):
        return hi
    if E.valid(x >= lo):
        if E.valid(x <= hi):
            return x
        return hi if E.branch(x >= hi) else x
    if E.branch(x <= lo):
        return lo
    if E.valid(x <= hi):
        return x
    return hi if E.branch(x >= hi) else x


# ---------------------------------------------------------------- floats
def fpval(x):
    return z3.FPVal(x, F64)


def tofloat(x):
    """-> z3 FP term"""
    if isinstance(x, SymFloat):
        return x.t
    if isinstance(x, bool):
        return fpval(float(x))
    if isinstance(x, (int, float)):
        return fpval(float(x))
    if isinstance(x, SymInt):
        return z3.fpToFP(RNE, z3.ToReal(x.t), F64)
    if isinstance(x, z3.FPRef):
        return x
    raise Unsupported('tofloat %r' % type(x))


def tofloat_obj(x):
    if isinstance(x, SymFloat):
        return x
    return SymFloat(tofloat(x))


def _isnumf(o):
    return isinstance(o, (int, float, SymInt, SymFloat)) \
        and not isinstance(o, bool) or isinstance(o, bool)


_INTOPS = {z3.fpLT: lambda a, b: a < b, z3.fpLEQ: lambda a, b: a <= b,
           z3.fpGT: lambda a, b: a > b, z3.fpGEQ: lambda a, b: a >= b}


class SymFloat:
    """iv: optional (lo, hi) python floats known to bound the value
    (propagated through multiplication/division by concrete finite numbers,
    which are monotone under round-to-nearest)"""
    __slots__ = ('t', 'iv')

    def __init__(self, t, iv=None):
        self.t = t
        self.iv = iv

    def _scale(s, r, k, div=False):
        if s.iv is None or isinstance(k, (SymInt, SymFloat)) or \
                not isinstance(r, SymFloat):
            return r
        try:
            k = float(k)
            if k == 0 or k != k or k in (float('inf'), float('-inf')):
                return r
            a, b = (s.iv[0] / k, s.iv[1] / k) if div else \
                (s.iv[0] * k, s.iv[1] * k)
            lo, hi = min(a, b), max(a, b)
            if lo == lo and hi == hi and lo != float('-inf') and \
                    hi != float('inf'):
                r.iv = (lo, hi)
        except OverflowError:
            pass
        return r

    def _bin(s, o, f, rev=False):
        if not _isnumf(o):
            return NotImplemented
        a, b = s.t, tofloat(o)
        if rev:
            a, b = b, a
        return wrapfloat(f(a, b))

    def __add__(s, o):
        return s._bin(o, lambda a, b: z3.fpAdd(RNE, a, b))

    def __radd__(s, o):
        return s._bin(o, lambda a, b: z3.fpAdd(RNE, a, b), True)

    def __sub__(s, o):
        return s._bin(o, lambda a, b: z3.fpSub(RNE, a, b))

    def __rsub__(s, o):
        return s._bin(o, lambda a, b: z3.fpSub(RNE, a, b), True)

    def __mul__(s, o):
        return s._scale(s._bin(o, lambda a, b: z3.fpMul(RNE, a, b)), o)

    def __rmul__(s, o):
        return s._scale(s._bin(o, lambda a, b: z3.fpMul(RNE, a, b), True),
                        o)

    def __truediv__(s, o):
        if not _isnumf(o):
            return NotImplemented
        d = tofloat(o)
        if ENG.branch(z3.fpIsZero(d)):
            raise ZeroDivisionError('float division by zero')
        return s._scale(wrapfloat(z3.fpDiv(RNE, s.t, d)), o, True)

    def __rtruediv__(s, o):
        if not _isnumf(o):
            return NotImplemented
        if ENG.branch(z3.fpIsZero(s.t)):
            raise ZeroDivisionError('float division by zero')
        return wrapfloat(z3.fpDiv(RNE, tofloat(o), s.t))

    def __neg__(s):
        return wrapfloat(z3.fpNeg(s.t))

    def __pos__(s):
        return s

    def __abs__(s):
        return wrapfloat(z3.fpAbs(s.t))

    def _cmp(s, o, f):
        if not _isnumf(o):
            return NotImplemented
        if f in _INTOPS and hasattr(s, 'exact_cmp'):
            r = s.exact_cmp(o, _INTOPS[f])
            if r is not NotImplemented:
                return r
        return wrapbool(f(s.t, tofloat(o)))

    def __lt__(s, o):
        return s._cmp(o, z3.fpLT)

    def __le__(s, o):
        return s._cmp(o, z3.fpLEQ)

    def __gt__(s, o):
        return s._cmp(o, z3.fpGT)

    def __ge__(s, o):
        return s._cmp(o, z3.fpGEQ)

    def __eq__(s, o):
        if not _isnumf(o):
            return False
        return wrapbool(z3.fpEQ(s.t, tofloat(o)))

    def __ne__(s, o):
        if not _isnumf(o):
            return True
        return wrapbool(z3.Not(z3.fpEQ(s.t, tofloat(o))))

    def __hash__(s):
        raise Unsupported('hash of SymFloat')

    def __bool__(s):
        return ENG.branch(z3.Not(z3.fpIsZero(s.t)))

    def __float__(s):
        from . import env
        if env.in_message_context():
            return 0.0
        raise Unsupported('float() realisation of a symbolic float')

    def __str__(s):
        from . import env
        if env.in_message_context():
            return '<symf>'
        raise Unsupported('str of symbolic float')
    __repr__ = lambda s: 'SymFloat(%s)' % s.t

    def __format__(s, spec):
        return s.__str__()

    def is_integer(s):
        return wrapbool(z3.fpEQ(z3.fpRoundToIntegral(z3.RTZ(), s.t), s.t))


def wrapfloat(t):
    t = z3.simplify(t)
    if isinstance(t, z3.FPNumRef):
        try:
            import struct
            bv = z3.simplify(z3.fpToIEEEBV(t))
            if t.isNaN():
                return float('nan')
            if z3.is_bv_value(bv):
                return struct.unpack('<d', struct.pack(
                    '<Q', bv.as_long()))[0]
        except Exception:
            pass
        return SymFloat(t)
    return SymFloat(t)


def same_float(a, b):
    """bit-level identity of two float values (NaN == NaN, -0.0 != 0.0)"""
    return wrapbool(tofloat(a) == tofloat(b))


def float_ceil_int(x):
    """math.ceil on a (finite) symbolic float -> SymInt"""
    t = tofloat(x)
    bad = z3.Or(z3.fpIsNaN(t), z3.fpIsInf(t))
    finite = isinstance(x, SymFloat) and x.iv is not None
    if not finite and not ENG.valid(z3.Not(bad)) and ENG.branch(bad):
        if ENG.branch(z3.fpIsNaN(t)):
            raise deliberate(ValueError(
                'cannot convert float NaN to integer'))
        raise deliberate(OverflowError(
            'cannot convert float infinity to integer'))
    r = z3.fpRoundToIntegral(z3.RTP(), t)
    return wrapint(z3.ToInt(z3.fpToReal(r)))


def float_trunc_int(x):
    if hasattr(x, 'exact_trunc'):
        return x.exact_trunc()
    t = tofloat(x)
    if ENG.branch(z3.Or(z3.fpIsNaN(t), z3.fpIsInf(t))):
        if ENG.branch(z3.fpIsNaN(t)):
            raise ValueError('cannot convert float NaN to integer')
        raise OverflowError('cannot convert float infinity to integer')
    r = z3.fpRoundToIntegral(z3.RTZ(), t)
    return wrapint(z3.ToInt(z3.fpToReal(r)))
