"""Harnesses over oslo_utils.timeutils (C12) above the datetime model."""
import os
import sys
import datetime as RD

VERIF = os.path.dirname(os.path.dirname(os.path.abspath(__file__)))
sys.path.insert(0, VERIF)

from symx import core, env, h, run as R, symdt   # noqa: E402
from symx.core import AND, OR, NOT, ITE            # noqa: E402

TU = 'oslo_utils.timeutils'
US = symdt.US
DAY = symdt.DAY_US
LO, HI = 2 * DAY, symdt.MAX_US - 2 * DAY          # keep results in range


class Mods:
    pass


class _NoIso:
    class ParseError(Exception):
        pass

    class iso8601:
        UTC = symdt.timezone.utc

    @staticmethod
    def parse_date(s):
        raise core.Unsupported('iso8601.parse_date is not modelled')


class _Zone:
    @staticmethod
    def ZoneInfo(name):
        if name == 'UTC':
            return symdt.timezone.utc
        raise core.Unsupported('named zone %r is not modelled' % (name,))


def load_sym():
    ld = env.Loader(env={'datetime': symdt.FakeDatetimeModule,
                         'calendar': symdt.FakeCalendar,
                         'iso8601': _NoIso, 'zoneinfo': _Zone})
    m = Mods()
    m.tu = ld.load(TU)
    m.sha = ld.sha
    return m


def load_real():
    m = Mods()
    m.tu = env.import_real(TU)
    return m


def mk_dt(ctx, us, off_us=None):
    """datetime at instant `us` (local wall-clock) with optional fixed
    offset, in the model or for real"""
    if ctx.sym:
        tz = None if off_us is None else symdt.timezone(
            symdt.timedelta(_us=core.wrapint(core.toint(off_us))))
        return symdt.datetime(_us=us, tzinfo=tz)
    tz = None if off_us is None else RD.timezone(
        RD.timedelta(microseconds=off_us))
    return RD.datetime(1, 1, 1, tzinfo=tz) + RD.timedelta(microseconds=us)


def us_of(ctx, dt):
    """wall-clock instant (us since 0001-01-01) of a datetime"""
    if ctx.sym:
        return dt.us
    d = dt.replace(tzinfo=None) - RD.datetime(1, 1, 1)
    return (d.days * 86400 + d.seconds) * US + d.microseconds


def scen_normalize(ctx, M):
    tu = M.tu
    t = ctx.int('t', LO, HI)
    aware = ctx.truth(ctx.bool('aware'))
    off = ctx.int('off', -DAY + 1, DAY - 1) if aware else None
    dt = mk_dt(ctx, t, off)
    r = tu.normalize_time(dt)
    if not aware:
        ctx.check('C12-normalize-naive-untouched', r is dt)
    else:
        ctx.check('C12-normalize-naive-result', r.tzinfo is None)
        ctx.check('C12-normalize-utc-instant',
                  h.veq(us_of(ctx, r) == t - off, True))
    ctx.goal('aware' if aware else 'naive')
    return ()


def scen_compare(ctx, M):
    """overridden clock: is_older_than / is_newer_than / is_soon, utcnow,
    utcnow_ts, advance_time_delta / seconds"""
    tu = M.tu
    now = ctx.int('now', LO, HI)
    t = ctx.int('t', LO, HI)
    aware = ctx.truth(ctx.bool('aware'))
    off = ctx.int('off', -DAY + 1, DAY - 1) if aware else None
    secs = ctx.int('secs', -32 * 10 ** 10, 32 * 10 ** 10)
    adv = ctx.int('adv_us', -365 * DAY, 365 * DAY)
    adv_s = ctx.int('adv_s', -10 ** 7, 10 ** 7)
    # fractional second counts: secs + k/64 (a whole number of microseconds,
    # exactly representable as a float; negative ones via negative secs)
    k64 = ctx.choice('frac64', ctx.p.get('fracs') or [0, 32, 16, 1, 63])
    dt = mk_dt(ctx, t, off)
    t_utc = t - off if aware else t
    secs_us = secs * US + k64 * 15625
    if k64 == 0:
        secs_v = secs
    elif ctx.sym:
        secs_v = symdt.DyadicFloat(secs, k64, 6)
    else:
        secs_v = secs + k64 / 64.0
    # advance_time_seconds by a fractional amount as well
    ak = ctx.choice('adv_frac64', [0, 32, 63])
    adv_s_us = adv_s * US + ak * 15625
    if ak == 0:
        adv_s_v = adv_s
    elif ctx.sym:
        adv_s_v = symdt.DyadicFloat(adv_s, ak, 6)
    else:
        adv_s_v = adv_s + ak / 64.0
    # every intermediate instant stays representable
    ctx.assume(AND(now + adv >= LO, now + adv <= HI,
                   now + adv + adv_s_us >= LO,
                   now + adv + adv_s_us <= HI,
                   now + secs_us >= 0, now + secs_us <= symdt.MAX_US))
    tu.set_time_override(mk_dt(ctx, now))
    try:
        ctx.check('C12-utcnow-is-override',
                  h.veq(us_of(ctx, tu.utcnow()) == now, True))
        ctx.check('C12-utcnow-ts',
                  h.veq(tu.utcnow_ts() == (now - symdt.EPOCH_US) // US,
                        True))
        older = tu.is_older_than(dt, secs_v)
        newer = tu.is_newer_than(dt, secs_v)
        soon = tu.is_soon(dt, secs_v)
        ctx.check('C12-is-older-than',
                  h.veq(older, now - t_utc > secs_us))
        ctx.check('C12-is-newer-than',
                  h.veq(newer, t_utc - now > secs_us))
        ctx.check('C12-is-soon', h.veq(soon, t_utc <= now + secs_us))
        if ctx.sym:
            delta = symdt.timedelta(_us=adv)
        else:
            delta = RD.timedelta(microseconds=adv)
        tu.advance_time_delta(delta)
        ctx.check('C12-advance-delta',
                  h.veq(us_of(ctx, tu.utcnow()) == now + adv, True))
        tu.advance_time_seconds(adv_s_v)
        ctx.check('C12-advance-seconds',
                  h.veq(us_of(ctx, tu.utcnow()) == now + adv + adv_s_us,
                        True))
        ctx.check('C12-utcnow-ts-after-advance', h.veq(
            tu.utcnow_ts() == (now + adv + adv_s_us - symdt.EPOCH_US)
            // US, True))
    finally:
        tu.clear_time_override()
    ctx.check('C12-override-cleared', tu.utcnow.override_time is None)
    ctx.goal('aware' if aware else 'naive')
    return ()


FIELDS = ('year', 'month', 'day', 'hour', 'minute', 'second', 'microsecond')


def scen_marshall(ctx, M):
    tu = M.tu
    v = dict(year=ctx.int('year', 1, 9999), month=ctx.int('month', 1, 12),
             day=ctx.int('day', 1, 31), hour=ctx.int('hour', 0, 23),
             minute=ctx.int('minute', 0, 59), second=ctx.int('second', 0, 59),
             microsecond=ctx.int('microsecond', 0, 999999))
    utc = ctx.truth(ctx.bool('utc'))
    if ctx.sym:
        ctx.assume(v['day'] <= symdt._dim(v['year'], v['month']))
        x = symdt.datetime(tzinfo=symdt.timezone.utc if utc else None, **v)
    else:
        import calendar
        ctx.assume(v['day'] <= calendar.monthrange(v['year'],
                                                   v['month'])[1])
        x = RD.datetime(tzinfo=RD.timezone.utc if utc else None, **v)
    d = tu.marshall_now(x)
    ctx.check('C12-marshall-fields', AND(*[h.veq(d[k] == v[k], True)
                                           for k in FIELDS]))
    ctx.check('C12-marshall-tzname', d.get('tzname') == ('UTC' if utc
                                                         else None))
    y = tu.unmarshall_time(d)
    ctx.check('C12-unmarshall-inverts-marshall', AND(*[
        h.veq(getattr(y, k) == v[k], True) for k in FIELDS]))
    ctx.check('C12-unmarshall-tz', (y.tzinfo is not None) == utc)
    if utc:
        off = y.utcoffset()
        ctx.check('C12-unmarshall-utc-offset',
                  off is not None and off.total_seconds() == 0)
    # a leap second is capped at 59
    d2 = dict(d)
    d2['second'] = 60
    z = tu.unmarshall_time(d2)
    ctx.check('C12-leap-second-capped', z.second == 59)
    ctx.goal('utc' if utc else 'naive')
    return ()


FX = 'oslo_utils.fixture'


def load_sym_fx():
    ld = env.Loader(env={'datetime': symdt.FakeDatetimeModule,
                         'calendar': symdt.FakeCalendar,
                         'iso8601': _NoIso, 'zoneinfo': _Zone},
                    sym=[TU])
    m = Mods()
    m.fx = ld.load(FX)
    m.tu = ld.load(TU)
    m.sha = ld.sha
    return m


def load_real_fx():
    m = Mods()
    m.fx = env.import_real(FX)
    m.tu = env.import_real(TU)
    return m


def scen_fixture(ctx, M):
    """TimeFixture: setUp overrides the clock with the given instant, the
    advance methods move it by exactly the given amount, cleanUp removes
    the override"""
    tu, fxm = M.tu, M.fx
    now = ctx.int('now', LO, HI)
    adv = ctx.int('adv_us', -365 * DAY, 365 * DAY)
    adv_s = ctx.int('adv_s', -10 ** 7, 10 ** 7)
    ctx.assume(AND(now + adv >= LO, now + adv <= HI,
                   now + adv + adv_s * US >= LO,
                   now + adv + adv_s * US <= HI))
    fx = fxm.TimeFixture(mk_dt(ctx, now))
    fx.setUp()
    try:
        ctx.check('C12-fixture-overrides',
                  h.veq(us_of(ctx, tu.utcnow()) == now, True))
        fx.advance_time_delta(symdt.timedelta(_us=adv) if ctx.sym
                              else RD.timedelta(microseconds=adv))
        ctx.check('C12-fixture-advance-delta',
                  h.veq(us_of(ctx, tu.utcnow()) == now + adv, True))
        fx.advance_time_seconds(adv_s)
        ctx.check('C12-fixture-advance-seconds',
                  h.veq(us_of(ctx, tu.utcnow()) == now + adv + adv_s * US,
                        True))
    finally:
        fx.cleanUp()
    ctx.check('C12-fixture-cleanup', tu.utcnow.override_time is None)
    ctx.goal('done')
    return ()
