"""Harnesses over oslo_utils.imageutils.format_inspector (C01-C03, C05-C07).

Every scenario function runs twice: symbolically on the source loaded from
/repo's working tree (symx.env.Loader) and concretely on the normally
imported module (witness / counterexample replay)."""
import os
import sys

VERIF = os.path.dirname(os.path.dirname(os.path.abspath(__file__)))
sys.path.insert(0, VERIF)

from symx import core, env, h, run as R          # noqa: E402
from symx.core import AND, OR, NOT, ITE, IMPLIES  # noqa: E402
from spec import formats as F                     # noqa: E402

FI = 'oslo_utils.imageutils.format_inspector'
HASHED = ('FileInspector', 'CaptureRegion')


class Mods:
    pass


def load_sym(flip=False):
    ld = env.Loader()
    m = Mods()
    m.fi = ld.load(FI)
    env.deterministic_hashes(m.fi, HASHED, flip)
    m.sha = ld.sha
    m.loader = ld
    return m


def load_sym_flip():
    return load_sym(True)


def load_real():
    m = Mods()
    m.fi = env.import_real(FI)
    return m


CLS = {'raw': 'RawFileInspector', 'qcow2': 'QcowInspector',
       'qed': 'QEDInspector', 'vhd': 'VHDInspector',
       'vhdx': 'VHDXInspector', 'vmdk': 'VMDKInspector',
       'vdi': 'VDIInspector', 'iso': 'ISOInspector', 'gpt': 'GPTInspector',
       'luks': 'LUKSInspector'}

ZERO_UNTIL_CAPTURED = ('qcow2', 'vhd', 'vhdx', 'vmdk', 'vdi', 'iso')

# stream length bound per simple format: beyond the last decision point
NMAX = {'raw': 4096, 'qcow2': 2048, 'qed': 2048, 'vhd': 2048, 'vdi': 2048,
        'iso': 40 * 1024, 'gpt': 2048, 'luks': 2048}


def _pte(boot=0, chs=(0, 0, 0), typ=0, lba=0, size=0):
    return bytes([boot, *chs, typ, 0, 0, 0]) + lba.to_bytes(4, 'little') + \
        size.to_bytes(4, 'little')


_E = _pte()
_D = _pte(0x80, (1, 1, 0), 0x83, 2048, 4096)
_P = _pte(0, (0, 2, 0), 0xEE, 1, 0xFFFFFFFF)
GPT_PATTERNS = {
    'empty': [_E, _E, _E, _E],
    'data': [_D, _D, _D, _D],
    'protective0': [_P, _E, _E, _E],
}


# ---------------------------------------------------------------- L1
def scen_capture(ctx, M):
    """One inductive step of CaptureRegion.capture from an arbitrary
    pre-state satisfying the invariant `data == S[off : off+d]`,
    d = clamp(p - off, 0, len), for an arbitrary next chunk S[p : p+c]."""
    fi = M.fi
    off = ctx.int('off', 0)
    ln = ctx.int('ln', 0)
    p = ctx.int('p', 0)
    c = ctx.int('c', 0)
    use_min = ctx.p.get('min_length', False)
    ml = ctx.int('ml', 0) if use_min else None
    S = ctx.stream('S', p + c, default='free')
    d = h.clamp(p - off, 0, ln)
    r = fi.CaptureRegion(off, ln, min_length=ml)
    r.data = S.slice(off, off + d)
    was_complete = ctx.truth(r.complete)
    if not was_complete:          # FileInspector._capture skips complete ones
        r.capture(S.slice(p, p + c), p + c)
        ctx.goal('captured')
    else:
        ctx.goal('already-complete')
    d2 = h.clamp(p + c - off, 0, ln)
    if was_complete:
        d2 = d
    ctx.check('C01-L1-data', h.eqbytes(r.data, S.slice(off, off + d2)))
    n = h.length(r.data)
    ctx.check('C01-L1-len', n == d2)
    ctx.check('C05-L-bound', n <= ln)
    comp = r.complete
    if use_min:
        ctx.check('C01-L1-complete', h.veq(comp, d2 >= ml))
    else:
        ctx.check('C01-L1-complete', h.veq(comp, d2 == ln))
    if ctx.truth(AND(c > 0, p <= off, off < p + c, ln > 0)):
        ctx.goal('chunk-straddles-start')
    return ('done',)


def scen_endcapture(ctx, M):
    """One step of EndCaptureRegion: data is the last min(n, pos) bytes."""
    fi = M.fi
    n = ctx.int('n', 1)        # EndCaptureRegion(0) is meaningless (data[-0:])
    p = ctx.int('p', 0)
    c = ctx.int('c', 0)
    S = ctx.stream('S', p + c, default='free')
    r = fi.EndCaptureRegion(n)
    have = h.vmin(n, p)
    r.data = S.slice(p - have, p)
    r.offset = p - have
    r.capture(S.slice(p, p + c), p + c)
    have2 = h.vmin(n, p + c)
    ctx.check('C01-L1-end-data', h.eqbytes(r.data,
                                           S.slice(p + c - have2, p + c)))
    ctx.check('C01-L1-end-offset', r.offset == p + c - have2)
    ctx.check('C05-L-end-bound', h.length(r.data) <= n)
    ctx.check('C01-L1-end-incomplete', h.veq(r.complete, False))
    r.finish()
    ctx.check('C01-L1-end-complete', h.veq(r.complete, have2 == n))
    if ctx.truth(AND(c > n, n > 0)):
        ctx.goal('giant-chunk')
    return ('done',)


# ---------------------------------------------------------------- inspectors
def observe(ctx, fi, insp, size_hook=None):
    """(match, complete, virtual_size, safety) of an inspector; booleans
    are forked into concrete values, the size stays symbolic"""
    m = ctx.truth(insp.format_match)
    c = ctx.truth(insp.complete)
    try:
        vs = insp.virtual_size
    except Exception as e:
        vs = 'EXC:' + type(e).__name__
    try:
        insp.safety_check()
        sc = 'ok'
    except fi.SafetyCheckFailed as ex:
        sc = 'fail:' + ','.join(sorted(ex.failures))
    except fi.ImageFormatError:
        sc = 'refused'
    except Exception as e:
        sc = 'EXC:' + type(e).__name__
    return (m, c, vs, sc)


def feed(ctx, fi, cls, chunks, queries, regions_log=None, bound=None):
    """present chunks; returns ('ok', inspector) or ('exc', name, insp).
    With `bound`, the retained-bytes total is an obligation after every
    chunk (C05: the bound holds at every point of the stream)."""
    insp = cls()
    try:
        for ch in chunks:
            insp.eat_chunk(ch)
            if bound is not None:
                tot = 0
                for v in insp.context_info.values():
                    tot = tot + v
                ctx.check('C05-bound-after-every-chunk', tot <= bound)
            if queries:
                # queries made in between must not disturb anything
                insp.format_match
                insp.complete
                try:
                    insp.virtual_size
                except Exception:
                    pass
                insp.context_info
        insp.finish()
    except fi.ImageFormatError:
        return ('ImageFormatError', insp)
    except Exception as e:
        return (type(e).__name__, insp)
    return (None, insp)


def cuts(ctx, k, N):
    cs = []
    prev = 0
    for i in range(k):
        c = ctx.int('c%d' % (i + 1), 0)
        ctx.assume(AND(c >= prev, c <= N))
        cs.append(c)
        prev = c
    return cs


def chunks_of(S, cs):
    out = []
    prev = 0
    for c in cs:
        out.append(S.slice(prev, c))
        prev = c
    out.append(S.slice(prev, S.N))
    return out


def retained_ok(ctx, insp, S, label):
    """whatever is retained for a region is S[offset : offset+len(data)]"""
    for name, region in insp._capture_regions.items():
        n = h.length(region.data)
        ctx.check('%s-%s' % (label, name),
                  h.eqbytes(region.data,
                            S.slice(region.offset, region.offset + n)))


def scen_simple(ctx, M):
    """A simple (fixed-layout) format: k symbolic cuts with intermediate
    queries (run A) against one chunk (run B), plus the reference
    predicates for match / complete / size / safety."""
    fi = M.fi
    fmt = ctx.p['fmt']
    ref = F.REFS[fmt]
    cls = getattr(fi, CLS[fmt])
    N = ctx.int('N', 0, ctx.p.get('nmax', NMAX[fmt]))
    fixed = {}
    if fmt == 'gpt' and ctx.p.get('gpt_sym') is not None:
        # bounded family of MBR tables: the listed entries are fully
        # symbolic, the others follow a concrete pattern
        pat = GPT_PATTERNS[ctx.p.get('gpt_fixed', 'empty')]
        for i in range(4):
            if i not in ctx.p['gpt_sym']:
                for j, b in enumerate(pat[i]):
                    fixed[446 + 16 * i + j] = b
    if fmt == 'iso' and ctx.p.get('iso_bs') is not None:
        bs = ctx.p['iso_bs']
        fixed = {32896: bs & 255, 32897: bs >> 8}
    S = ctx.stream('S', N, fixed=fixed, default='free')
    cs = cuts(ctx, ctx.p['cuts'], N)
    # run B first: its (content) decisions are then shared by all the
    # chunking paths of run A
    eb, B = feed(ctx, fi, cls, [S.whole()], False)
    ob = observe(ctx, fi, B) if eb is None else None
    ea, A = feed(ctx, fi, cls, chunks_of(S, cs), True, bound=ref.bound)
    ctx.check('C01-rel-exception', ea == eb)
    ctx.check('C03-total-only-IFE', ea in (None, 'ImageFormatError'))
    if ea is not None or eb is not None:
        ctx.goal('rejected-by-eat_chunk')
        return (ea, eb)
    oa = observe(ctx, fi, A)
    ctx.check('C01-rel-match', oa[0] == ob[0])
    ctx.check('C01-rel-complete', oa[1] == ob[1])
    ctx.check('C01-rel-size', h.veq(oa[2], ob[2]))
    ctx.check('C01-rel-safety', oa[3] == ob[3])
    retained_ok(ctx, A, S, 'C01-retain')
    # C05: retained bytes never exceed the bound
    total = 0
    for v in A.context_info.values():
        total = total + v
    ctx.check('C05-bound', total <= ref.bound)
    # reference predicates
    m, c, vs, sc = oa
    ctx.check('C01-ref-complete', h.veq(c, ref.complete(S)))
    ctx.check('C03-match-iff-signature', h.veq(m, ref.signature(S)))
    # C07: declared size for a complete, matching image; 0 while the
    # structure carrying the size has not been captured
    if c and m:
        ctx.check('C07-size', h.veq(vs, ref.size(S)) if not isinstance(
            vs, str) else False)
    elif not c and fmt in ZERO_UNTIL_CAPTURED:
        ctx.check('C07-zero-while-unknown', h.veq(vs, 0))
    # C02: fail closed
    fails = ref.failing(S) if (c and m) else {}
    if sc == 'ok':
        ctx.goal('accepted')
        ctx.check('C02-ok-needs-complete-match', AND(c, m))
        for name, cond in fails.items():
            ctx.check('C02-accepted-but-%s' % name, NOT(cond))
    elif sc == 'refused':
        ctx.goal('refused')
        ctx.check('C02-refused-iff', NOT(AND(c, m)))
    elif sc.startswith('fail:'):
        ctx.goal('failed')
        got = set(sc[5:].split(','))
        ctx.check('C02-checks-known', got <= set(ref.checks))
        for name in ref.checks:
            ctx.check('C02-check-%s' % name,
                      h.veq(name in got, fails.get(name, False)))
    else:
        ctx.check('C02-no-other-exception', False)
    if c and m:
        ctx.goal('complete-match')
    return (ea, eb, m, c, vs, sc)


# ---------------------------------------------------------------- VHDX
import uuid as _uuid

G_META = _uuid.UUID('8B7CA206-4790-4B9A-B8FE-575F050F886E').bytes_le
G_VDS = _uuid.UUID('2FA54224-CD1B-4876-B211-5DBED83BF4B8').bytes_le
G_BAT = _uuid.UUID('2DC27766-F623-4200-9D64-115E9BFD4A08').bytes_le
G_FILEPARAM = _uuid.UUID('CAA16737-FA36-4D43-B3B6-33F0AA44E76B').bytes_le
HDR = 192 * 1024
KiB = 1024


def le_sum(ctx, names):
    """value of a little-endian field made of named symbolic bytes"""
    import z3
    if ctx.sym:
        return core.wrapint(h.int_from_bytes([z3.Int(n) for n in names],
                                             True))
    return None


def scen_vhdx(ctx, M):
    """VHDX: region table -> metadata table -> virtual-disk-size item with
    a symbolic metadata offset, item offset, item length, size, stream
    length and chunking.  Run A (k cuts + queries) against run B (one
    chunk), retention, memory bound, declared size."""
    fi = M.fi
    p = ctx.p
    rt = p.get('rt', ['meta'])          # region-table entries
    mt = p.get('mt', ['vds'])           # metadata-table entries
    fixed = {}
    # region table header: 'regi' left free (4 bytes), count fixed
    cnt = len(rt)
    for i, b in enumerate(cnt.to_bytes(4, 'little')):
        fixed[HDR + 8 + i] = b
    if p.get('sigs', 'sym') == 'sym':
        sym_cells = [HDR + j for j in range(4)] + list(range(8))
    else:
        sym_cells = []
        for j, b in enumerate(b'vhdxfile'):
            fixed[j] = b
        for j, b in enumerate(b'regi'):
            fixed[HDR + j] = b
    for i, kind in enumerate(rt):
        e = HDR + 16 + 32 * i
        g = G_META if kind == 'meta' else G_BAT
        for j, b in enumerate(g):
            fixed[e + j] = b
        if kind == 'meta':
            # the metadata region's offset and its announced length
            sym_cells += [e + 16 + j for j in range(8)]
            sym_cells += [e + 24 + j for j in range(4)]
    mi = rt.index('meta') if 'meta' in rt else None
    N = ctx.int('N', 0, p.get('nmax', 16 * KiB * KiB))
    segs = []
    Moff = None
    if mi is not None:
        e = HDR + 16 + 32 * mi
        mcount = len(mt)
        cnt_bytes = list(mcount.to_bytes(2, 'little'))
        if p.get('mcount') == 'sym':
            # entry count of the metadata table symbolic: small, or at /
            # beyond the limit (bounds the entry loop)
            cnt_bytes = [('sym', 'mc0'), ('sym', 'mc1')]
        table = [('sym', 'msig0') if p.get('sigs', 'sym') == 'sym'
                 else ord('m')] + list(b'etadata') + [0, 0] + \
            cnt_bytes + [0] * 20
        vi = mt.index('vds') if 'vds' in mt else None
        for i, kind in enumerate(mt):
            g = G_VDS if kind == 'vds' else G_FILEPARAM
            table += list(g)
            if kind == 'vds':
                table += [('sym', 'io%d' % j) for j in range(4)]
                table += [('sym', 'il%d' % j) for j in range(4)]
                table += [0] * 8
            else:
                table += list((65536 + 4096 * i).to_bytes(4, 'little')) + \
                    list((8).to_bytes(4, 'little')) + [0] * 8
    fam = p.get('family', 'forward')

    def family(Mv):
        if fam == 'forward':
            ctx.assume(Mv >= 256 * KiB)
            ctx.assume(Mv <= p.get('mmax', 8 * KiB * KiB))
        elif fam == 'backward':
            # a pointer back into the area already streamed past, placed so
            # that the table does not overwrite the ident or the region
            # table itself
            ctx.assume(AND(Mv >= 64, Mv <= 192 * KiB - 64 * KiB))
    # symbolically the family assumption on M must be in force before the
    # stream is read (the table segment is placed at M)
    if ctx.sym and mi is not None:
        import z3
        Mv = core.wrapint(h.int_from_bytes(
            [z3.Int('S_%d' % (HDR + 16 + 32 * mi + 16 + j))
             for j in range(8)], True))
        IO = core.wrapint(h.int_from_bytes(
            [z3.Int('io%d' % j) for j in range(4)], True))
        for j in range(8):
            ctx.byte_var('S_%d' % (HDR + 16 + 32 * mi + 16 + j))
        for j in range(4):
            ctx.byte_var('io%d' % j)
        family(Mv)
        if fam == 'backward':
            ctx.assume(IO <= 4096)     # the size item stays clear of the
            #                            region table as well
        lb = 256 * KiB if fam == 'forward' else None
        # later segments win where they overlap: the table wins over the
        # size item
        if vi is not None:
            segs.append((Mv + IO, [('sym', 'sz%d' % j) for j in range(8)],
                         lb))
        segs.append((Mv, table, lb))
    S = ctx.stream('S', N, sym_cells=sym_cells, fixed=fixed,
                   default=p.get('default', 0), segs=segs)
    if not ctx.sym and mi is not None:
        Mv = S.le(HDR + 16 + 32 * mi + 16, 8)
        family(Mv)
        if fam == 'backward' and 'vds' in mt:
            ctx.assume(S.le(Mv + 32 + 32 * mt.index('vds') + 16, 4) <= 4096)
    if p.get('mcount') == 'sym' and mi is not None:
        mc = S.le(Mv + 10, 2)
        ctx.assume(OR(mc <= 2, mc >= 2047))
    cs = cuts(ctx, p['cuts'], N)
    cls = fi.VHDXInspector
    eb, B = feed(ctx, fi, cls, [S.whole()], False, bound=512 * KiB)
    ob = observe(ctx, fi, B) if eb is None else None
    ea, A = feed(ctx, fi, cls, chunks_of(S, cs), True, bound=512 * KiB)
    ctx.check('C01-rel-exception', ea == eb)
    ctx.check('C03-total-only-IFE', ea in (None, 'ImageFormatError') and
              eb in (None, 'ImageFormatError'))
    total = 0
    for v in A.context_info.values():
        total = total + v
    ctx.check('C05-bound', total <= 512 * KiB)
    for name, region in A._capture_regions.items():
        ctx.check('C05-region-length-%s' % name,
                  AND(region.length >= 0, region.length <= 64 * KiB))
    wf = False
    if mi is not None and vi is not None and fam == 'forward':
        e = Mv + 32 + 32 * vi
        io = S.le(e + 16, 4)
        il = S.le(e + 20, 4)
        size = S.le(Mv + io, 8)
        entries = 32 + 32 * len(mt)
        mcnt = S.le(Mv + 10, 2)
        wf = AND(N >= 256 * KiB, S.has(HDR, b'regi'),
                 S.has(Mv, b'metadata'), mcnt == len(mt), io >= entries,
                 il == 8, N >= Mv + io + 8, N >= Mv + entries)
    if ea is not None or eb is not None:
        ctx.goal('rejected-by-eat_chunk')
        # a well-formed image is never refused while streaming
        ctx.check('C07-wellformed-not-rejected', NOT(wf))
        return (ea, eb)
    oa = observe(ctx, fi, A)
    ctx.check('C01-rel-match', oa[0] == ob[0])
    ctx.check('C01-rel-complete', oa[1] == ob[1])
    ctx.check('C01-rel-size', h.veq(oa[2], ob[2]))
    ctx.check('C01-rel-safety', oa[3] == ob[3])
    retained_ok(ctx, A, S, 'C01-retain')
    m, c, vs, sc = oa
    ctx.check('C03-match-iff-signature', h.veq(m, S.has(0, b'vhdxfile')))
    # C07 on the well-formed skeleton
    if mi is not None and vi is not None and fam == 'forward':
        if ctx.truth(wf):
            ctx.goal('well-formed')
            ctx.check('C07-size', h.veq(vs, size))
            ctx.check('C07-complete', c)
            if m:
                ctx.check('C02-clean-accepted', sc == 'ok')
        elif ctx.truth(AND(N >= 256 * KiB, S.has(HDR, b'regi'),
                           S.has(Mv, b'metadata'), io >= entries, il == 8,
                           N < Mv + io + 8)):
            ctx.goal('truncated-before-size')
            ctx.check('C07-zero-while-unknown', h.veq(vs, 0))
    elif fam == 'forward':
        ctx.check('C07-no-size-item', h.veq(vs, 0))
    if sc == 'ok':
        ctx.check('C02-ok-needs-complete-match', c and m)
    return (ea, eb, m, c, vs, sc)


# ---------------------------------------------------------------- job sets
def harnesses():
    H = {
        'capture-step': R.Harness('capture-step', scen_capture, load_sym,
                                  load_real),
        'endcapture-step': R.Harness('endcapture-step', scen_endcapture,
                                     load_sym, load_real),
        'simple': R.Harness('simple', scen_simple, load_sym, load_real),
        'simple-flip': R.Harness('simple-flip', scen_simple, load_sym_flip,
                                 load_real),
        'vhdx': R.Harness('vhdx', scen_vhdx, load_sym, load_real),
        'vhdx-flip': R.Harness('vhdx-flip', scen_vhdx, load_sym_flip,
                               load_real),
    }
    H['cli'] = R.Harness('cli', scen_cli, load_sym_cli, load_real_cli)
    H['cli'].required_goals = ('exit0', 'nonzero')
    H['vmdk-text'] = R.Harness('vmdk-text', scen_vmdk_text, load_sym,
                               load_real)
    H['vmdk-text'].required_goals = ('text-mode',)
    H['vmdk'] = R.Harness('vmdk', scen_vmdk, load_sym, load_real)
    H['vmdk'].required_goals = ('accepted', 'failed', 'truncated-descriptor')
    H['detect'] = R.Harness('detect', scen_detect, load_sym, load_real)
    H['detect'].required_goals = ('ife', 'raw', 'specific',
                                  'early-decision')
    H['detect-rel'] = R.Harness('detect-rel', scen_detect, load_sym,
                                load_real)
    H['detect-rel'].required_goals = ('raw', 'specific')
    H['detect-file'] = R.Harness('detect-file', scen_detect_file, load_sym,
                                 load_real)
    H['detect-file'].required_goals = ('ife', 'raw', 'specific')
    H['pipe'] = R.Harness('pipe', scen_pipe, load_sym, load_real)
    H['pipe'].required_goals = ('clean-run', 'expected-fault',
                                'expected-mismatch', 'isolated-fault')
    H['safetycheck'] = R.Harness('safetycheck', scen_safetycheck, load_sym,
                                 load_real)
    H['safetycheck'].required_goals = ('ok', 'fail', 'refused')
    H['capture-step'].required_goals = ('captured', 'already-complete',
                                        'chunk-straddles-start')
    H['endcapture-step'].required_goals = ('giant-chunk',)
    H['simple'].required_goals = ('accepted', 'refused', 'complete-match')
    H['vhdx'].required_goals = ('well-formed', 'truncated-before-size',
                                'rejected-by-eat_chunk')
    return H


SIMPLE = ('raw', 'qcow2', 'qed', 'vhd', 'vdi', 'luks')


def simple_jobs(J, H, props, k, tier, gpt='few', iso_bs=(2048,)):
    jobs = []
    P = {'props': sorted(props), 'cuts': k}
    for fmt in SIMPLE:
        jobs.append(J(H['simple'], dict(P, fmt=fmt)))
    for bs in iso_bs:
        jobs.append(J(H['simple'], dict(P, fmt='iso', iso_bs=bs)))
    if gpt == 'few':
        fam = [([0], 'empty'), ([3], 'data'), ([1], 'protective0')]
    else:
        fam = [([i], pat) for i in range(4)
               for pat in ('empty', 'data', 'protective0')]
        if tier == 'thorough':
            fam += [([i, j], pat) for i in range(4) for j in range(i + 1, 4)
                    for pat in ('empty', 'data')]
    for sym, pat in fam:
        jobs.append(J(H['simple'], dict(P, fmt='gpt', gpt_sym=sym,
                                        gpt_fixed=pat),
                      split_depth=10 if len(sym) > 1 else None))
    return jobs


# ---------------------------------------------------------------- SafetyCheck
def scen_safetycheck(ctx, M):
    """FileInspector.safety_check over a harness-defined inspector whose
    checks pass, raise SafetyViolation, or raise an arbitrary exception
    (symbolic choice per check); completeness and match symbolic too."""
    fi = M.fi
    n = ctx.p.get('checks', 2)
    kinds = [ctx.choice('k%d' % i, ['pass', 'violation', 'error',
                                     'keyerror']) for i in range(n)]
    complete = ctx.truth(ctx.bool('complete'))
    match = ctx.truth(ctx.bool('match'))

    def mk(kind):
        def target():
            if kind == 'violation':
                raise fi.SafetyViolation('no')
            if kind == 'error':
                raise RuntimeError('boom')
            if kind == 'keyerror':
                raise KeyError('x')
            return None
        return target

    class T(fi.FileInspector):
        NAME = 't'

        def _initialize(self):
            for i, k in enumerate(kinds):
                self.add_safety_check(fi.SafetyCheck('c%d' % i, mk(k)))

        @property
        def format_match(self):
            return match

        @property
        def complete(self):
            return complete

    class NoChecks(fi.FileInspector):
        def _initialize(self):
            pass

        @property
        def format_match(self):
            return True

    try:
        NoChecks()
        built = True
    except RuntimeError:
        built = False
    ctx.check('C02-checks-required', not built)
    insp = T()
    try:
        insp.safety_check()
        out = 'ok'
    except fi.SafetyCheckFailed as e:
        out = 'fail:' + ','.join(sorted(e.failures))
    except fi.ImageFormatError:
        out = 'refused'
    except Exception as e:
        out = 'EXC:' + type(e).__name__
    bad = sorted('c%d' % i for i, k in enumerate(kinds) if k != 'pass')
    if not (complete and match):
        want = 'refused'
    elif bad:
        want = 'fail:' + ','.join(bad)
    else:
        want = 'ok'
    ctx.check('C02-safety-outcome', out == want)
    ctx.goal(want.split(':')[0])
    return (out,)


# ---------------------------------------------------------------- C06 pipe
class StubError(Exception):
    pass


STUB_NAMES = ('vhd', 'vhdx', 'qcow2', 'vdi')   # 'vhd' is a substring of 'vhdx'


def scen_pipe(ctx, M):
    """InspectWrapper over m stub inspectors (real FileInspector
    subclasses) with symbolic fault bits, symbolic complete/match flags,
    a symbolic stream, symbolic read sizes / iterator chunking and a
    symbolic expected_format."""
    fi = M.fi
    m = ctx.p['stubs']
    J = ctx.p['chunks']
    mode = ctx.p['mode']               # 'file' | 'iter'
    names = STUB_NAMES[:m]
    expected = ctx.choice('expected', [None] + list(names))
    fault = [[ctx.bool('f_%d_%d' % (i, j)) for j in range(J)]
             for i in range(m)]
    compl = [[ctx.bool('c_%d_%d' % (i, j)) for j in range(J)]
             for i in range(m)]
    match = [[ctx.bool('m_%d_%d' % (i, j)) for j in range(J)]
             for i in range(m)]
    N = ctx.int('N', 0, 1 << 20)
    S = ctx.stream('S', N, default='free')
    stubs = {}

    def mk(i, name):
        class Stub(fi.FileInspector):
            NAME = name

            def _initialize(self):
                self.fed = []
                self.raised_at = None
                self.add_safety_check(fi.SafetyCheck.null())
                stubs[i] = self

            def eat_chunk(self, chunk):
                j = len(self.fed)
                self.fed.append(chunk)
                if j < J and ctx.truth(fault[i][j]):
                    self.raised_at = j
                    raise StubError('stub %s chunk %d' % (name, j))

            @property
            def format_match(self):
                j = len(self.fed) - 1
                return ctx.truth(match[i][j]) if 0 <= j < J else False

            @property
            def complete(self):
                j = len(self.fed) - 1
                return ctx.truth(compl[i][j]) if 0 <= j < J else False
        return Stub

    # the source: J chunks at symbolic cut points
    cs = cuts(ctx, J - 1, N)
    bounds = [0] + cs + [N]
    src_chunks = [S.slice(bounds[j], bounds[j + 1]) for j in range(J)]
    pulled = [0]

    class FileSrc:
        def read(self, size):
            j = pulled[0]
            pulled[0] += 1
            return src_chunks[j] if j < J else S.slice(N, N)

    def gen():
        for j in range(J):
            pulled[0] += 1
            yield src_chunks[j]

    saved = fi.ALL_FORMATS
    fi.ALL_FORMATS = {n: mk(i, n) for i, n in enumerate(names)}
    try:
        src = FileSrc() if mode == 'file' else gen()
        w = fi.InspectWrapper(src, expected_format=expected)
        got = []
        outcome = None
        for j in range(J):
            try:
                if mode == 'file':
                    ch = w.read(bounds[j + 1] - bounds[j])
                else:
                    ch = next(w)
                got.append(ch)
            except StubError:
                outcome = ('StubError', j)
                break
            except fi.ImageFormatError:
                outcome = ('ImageFormatError', j)
                break
            except StopIteration:
                outcome = ('StopIteration', j)
                break
            except Exception as e:
                outcome = (type(e).__name__, j)
                break
        if outcome is None and mode == 'iter':
            try:
                next(w)
                outcome = ('extra-chunk', J)
            except StopIteration:
                pass
            except Exception as e:
                outcome = (type(e).__name__, J)
    finally:
        fi.ALL_FORMATS = saved
    # ---- reference: what must have happened
    want = None
    alive = [True] * m
    for j in range(J):
        ev = None
        for i, n in enumerate(names):
            if not alive[i]:
                continue
            if ctx.truth(fault[i][j]):
                alive[i] = False
                if n == expected:
                    ev = ('StubError', j)
            elif n == expected and ctx.truth(compl[i][j]) and \
                    not ctx.truth(match[i][j]):
                ev = ev or ('ImageFormatError', j)
        if ev is not None:
            want = ev
            break
    ctx.check('C06-outcome', outcome == want)
    stop = want[1] if want else J
    # transparent pipe: the chunks handed to the reader are the source's
    ctx.check('C06-count', len(got) == stop)
    for j, ch in enumerate(got):
        ctx.check('C06-pipe-%d' % j, h.eqbytes(ch, src_chunks[j]))
    # the source is not consumed beyond the chunk that cut the stream off
    ctx.check('C06-no-further-read',
              pulled[0] == (stop + 1 if want else J))
    # a failed inspector is never fed again; others see every chunk
    for i in range(m):
        st = stubs[i]
        if st.raised_at is not None:
            ctx.check('C06-not-fed-after-fault-%d' % i,
                      len(st.fed) == st.raised_at + 1)
        elif want is None:
            ctx.check('C06-fed-all-%d' % i, len(st.fed) == J)
            for j in range(min(J, len(st.fed))):
                ctx.check('C06-fed-%d-%d' % (i, j),
                          h.eqbytes(st.fed[j], src_chunks[j]))
    if want is None:
        ctx.goal('clean-run')
    elif want[0] == 'StubError':
        ctx.goal('expected-fault')
    else:
        ctx.goal('expected-mismatch')
    if any(stubs[i].raised_at is not None and names[i] != expected
           for i in range(m)):
        ctx.goal('isolated-fault')
    return (outcome,)


# ---------------------------------------------------------------- C03 detect
MAGICS0 = [('none', b''), ('qcow2', b'QFI\xfb'), ('qed', b'QED\x00'),
           ('vhd', b'conectix'), ('vhdx', b'vhdxfile'), ('vmdk', b'KDMV'),
           ('luks', b'LUKS\xba\xbe'), ('junk', b'\x7fELF')]
NONRAW = ('qcow2', 'vhd', 'vhdx', 'vmdk', 'vdi', 'qed', 'iso', 'gpt', 'luks')


def sig_present(S, name):
    if name == 'vhdx':
        return S.has(0, b'vhdxfile')
    if name == 'vmdk':
        return S.has(0, b'KDMV')
    return F.REFS[name].signature(S)


def count_true(conds):
    n = 0
    for c in conds:
        n = n + ITE(c, 1, 0)
    return n


def overlay(ctx, fixed):
    """overlay position-independent signatures (choices fork): VDI magic,
    MBR signature with/without the FAT look-alike bytes, ISO/UDF
    descriptors and a near miss.  p['overlays'] = 'single': at most one of
    them next to the offset-0 magic; 'all': any subset."""
    isos = [b'\x01CD001', b'\x00NSR02', b'\x01CD002']
    if ctx.p.get('overlays', 'single') == 'single':
        pick = ctx.choice('overlay', ['none', 'vdi', 'mbr', 'fat', 0, 1, 2])
        vdi = pick == 'vdi'
        mbr = {'mbr': 'yes', 'fat': 'fat'}.get(pick, 'no')
        iso = isos[pick] if isinstance(pick, int) else None
    else:
        vdi = ctx.choice('vdi', [False, True])
        mbr = ctx.choice('mbr', ['no', 'yes', 'fat'])
        iso = ctx.choice('iso', [None] + isos)
    if vdi:
        for j, b in enumerate((0xbeda107f).to_bytes(4, 'little')):
            fixed[0x40 + j] = b
    if mbr != 'no':
        fixed[510], fixed[511] = 0x55, 0xAA
        if mbr == 'fat':
            fixed[0x10], fixed[0x15] = 2, 0xF8
    if iso:
        for j, b in enumerate(iso):
            fixed[32768 + j] = b


def pick_n(ctx):
    """stream length: symbolic in [nmin, nmax], or one of a few small
    concrete values (text scans make every small length its own path)"""
    p = ctx.p
    if p.get('small_n'):
        return ctx.choice('Nsmall', [0, 3, 4, 8, 63, 64, 100, 511])
    return ctx.int('N', p.get('nmin', 512), p.get('nmax', 40960))


def drive_wrapper(ctx, fi, S, N, rsize, allowed, max_reads):
    """read the stream through an InspectWrapper in reads of `rsize`,
    sampling `format` after every read; close; -> (format, formats,
    samples, escaped exception)"""
    pos = [0]

    class Src:
        def read(self, size):
            a = pos[0]
            b = h.vmin(a + size, N)
            if ctx.truth(b > a):
                pos[0] = b
                return S.slice(a, b)
            return S.slice(a, a)

        def close(self):
            pass

    samples = []
    exc = None
    try:
        w = fi.InspectWrapper(Src(), allowed_formats=allowed)
        steps = 0
        while True:
            ch = w.read(rsize)
            steps += 1
            if not ctx.truth(h.length(ch) > 0):
                break
            try:
                f = w.format
                samples.append(None if f is None else str(f))
            except fi.ImageFormatError:
                samples.append('IFE')
            if steps > max_reads:
                ctx.assume(False)
        w.close()
        try:
            fs = w.formats
            final_formats = sorted(str(x) for x in fs) if fs is not None \
                else None
        except fi.ImageFormatError:
            final_formats = 'IFE'
        try:
            f = w.format
            final = None if f is None else str(f)
        except fi.ImageFormatError:
            final = 'IFE'
    except fi.ImageFormatError:
        exc = 'ImageFormatError-escaped-read'
        final = final_formats = None
    except Exception as e:
        exc = type(e).__name__
        final = final_formats = None
    return final, final_formats, samples, exc


def scen_detect(ctx, M):
    """InspectWrapper / detect_file_format with all ten real inspectors
    over a polyglot family: one of the offset-0 magics, plus symbolic VDI
    magic, MBR signature with the FAT look-alike bytes, and ISO descriptor
    bytes, over a zero background; stream length and read size symbolic;
    allowed_formats a symbolic subset over the interesting names."""
    fi = M.fi
    p = ctx.p
    mname, magic = ctx.choice('magic0', [x for x in MAGICS0 if p.get(
        'magic') in (None, x[0])])
    fixed = {i: b for i, b in enumerate(magic)}
    if mname == 'vmdk' and p.get('vmdk_ok'):
        # a header that passes the sparse checks: version 1, descriptor at
        # sector 1, one descriptor sector
        fixed.update({4: 1, 28: 1, 36: 1})
    if mname == 'vhdx' and p.get('regi'):
        for j, b in enumerate(b'regi'):
            fixed[HDR + j] = b
    if mname == 'vhdx' and p.get('vhdx_image'):
        # a complete well-formed VHDX: region table -> metadata table at
        # 320 KiB -> size item 64 KiB further on
        Mc = 320 * KiB
        for j, b in enumerate(b'regi' + bytes(4) + (1).to_bytes(4, 'little')
                              + bytes(4) + G_META +
                              Mc.to_bytes(8, 'little') +
                              (1 << 20).to_bytes(4, 'little') +
                              (1).to_bytes(4, 'little')):
            fixed[HDR + j] = b
        tbl = b'metadata' + bytes(2) + (1).to_bytes(2, 'little') + \
            bytes(20) + G_VDS + (65536).to_bytes(4, 'little') + \
            (8).to_bytes(4, 'little') + bytes(8)
        for j, b in enumerate(tbl):
            fixed[Mc + j] = b
        for j, b in enumerate((10 << 20).to_bytes(8, 'little')):
            fixed[Mc + 65536 + j] = b
    overlay(ctx, fixed)
    N = pick_n(ctx)
    S = ctx.stream('S', N, fixed=fixed, default=p.get('default', 0),
                   sym_cells=p.get('sym_cells', ()))
    # allowed_formats
    amode = p.get('allowed', 'all')
    if amode == 'all':
        allowed = None
        is_allowed = lambda n: True
    elif isinstance(amode, list):
        allowed = list(amode)
        is_allowed = lambda n: n in amode
    else:
        free = [n for n in ('raw', mname, 'gpt', 'iso')
                if n in fi.ALL_FORMATS]
        bits = {n: ctx.bool('allow_' + n) for n in free}
        memo = {}

        def is_allowed(n):
            if n not in bits:
                return True
            if n not in memo:
                memo[n] = ctx.truth(bits[n])
            return memo[n]

        class Subset:
            def __contains__(self, n):
                return is_allowed(n)

            def __bool__(self):
                return True
        allowed = Subset()
    rsize = p.get('read', 4096)
    if rsize == 'sym':
        # >= 512: the text scan of the VMDK inspector makes every shorter
        # first read its own path (and needs a known header length)
        rsize = ctx.int('rsize', p.get('rsize_min', 512),
                        p.get('rsize_max', 65536))
        # at most `max_sym_reads` non-empty reads (each read position forks
        # against every region boundary)
        ctx.assume(rsize * p.get('max_sym_reads', 4) >= N)
    final, final_formats, samples, exc = drive_wrapper(
        ctx, fi, S, N, rsize, allowed, p.get('max_reads', 40))
    if p.get('relational'):
        # C01 at wrapper level: the same content read in one piece must
        # lead to the same decision
        f2, ff2, _s2, exc2 = drive_wrapper(ctx, fi, S, N, N + 1, allowed, 3)
        ctx.check('C01-wrapper-rel-exception', exc == exc2)
        ctx.check('C01-wrapper-rel-format', final == f2)
        ctx.check('C01-wrapper-rel-formats', final_formats == ff2)
    ctx.check('C03-total', exc is None)
    if exc is not None:
        return (exc,)
    present = {n: AND(is_allowed(n), sig_present(S, n)) for n in NONRAW}
    npresent = count_true(present.values())
    raw_ok = is_allowed('raw')
    ctx.check('C03-decided-after-close', final is not None)
    if final == 'IFE':
        ctx.goal('ife')
        ctx.check('C03-ife-justified',
                  OR(npresent >= 2, AND(npresent == 0, not raw_ok)))
    elif final == 'raw':
        ctx.goal('raw')
        ctx.check('C03-raw-conservative', AND(npresent == 0, raw_ok))
    elif final is not None:
        ctx.goal('specific')
        ctx.check('C03-allowed', is_allowed(final))
        ctx.check('C03-signature-present', present[final])
        ctx.check('C03-exclusive', npresent == 1)
    if isinstance(final_formats, list):
        ctx.check('C03-raw-never-mixed',
                  'raw' not in final_formats or final_formats == ['raw'])
        for n in final_formats:
            ctx.check('C03-formats-allowed', is_allowed(n))
    # no revision: once a format was named, later samples and the final
    # answer are the same
    first = None
    for k, s in enumerate(samples + [final]):
        if first is None:
            if s not in (None, 'IFE'):
                first = s
                if k < len(samples) - 1:
                    ctx.goal('early-decision')
        else:
            ctx.check('C03-no-revision', s == first)
    return (final, final_formats, samples)


def scen_detect_file(ctx, M):
    """detect_file_format itself (open() is a stub over the symbolic
    stream): returns an inspector consistent with the signatures, or
    raises ImageFormatError, never anything else."""
    fi = M.fi
    p = ctx.p
    mname, magic = ctx.choice('magic0', [x for x in MAGICS0 if p.get(
        'magic') in (None, x[0])])
    fixed = {i: b for i, b in enumerate(magic)}
    overlay(ctx, fixed)
    N = pick_n(ctx)
    S = ctx.stream('S', N, fixed=fixed, default=0)
    pos = [0]

    class F_:
        def read(self, size):
            a = pos[0]
            b = h.vmin(a + size, N)
            if ctx.truth(b > a):
                pos[0] = b
                return S.slice(a, b)
            return S.slice(a, a)

        def close(self):
            pass

        def __enter__(self):
            return self

        def __exit__(self, *a):
            return False

    def fake_open(name, mode='r'):
        return F_()
    if ctx.sym:
        M.loader.builtins['open'] = fake_open
        try:
            try:
                r = fi.detect_file_format('x')
                out = str(r)
            except fi.ImageFormatError:
                out = 'IFE'
            except Exception as e:
                out = 'EXC:' + type(e).__name__
        finally:
            import builtins
            M.loader.builtins['open'] = builtins.open
    else:
        import unittest.mock as mock
        with mock.patch('builtins.open', fake_open):
            try:
                r = fi.detect_file_format('x')
                out = str(r)
            except fi.ImageFormatError:
                out = 'IFE'
            except Exception as e:
                out = 'EXC:' + type(e).__name__
    ctx.check('C03-total', not out.startswith('EXC'))
    present = {n: sig_present(S, n) for n in NONRAW}
    npresent = count_true(present.values())
    if out == 'IFE':
        ctx.goal('ife')
        ctx.check('C03-ife-justified', npresent >= 2)
    elif out == 'raw':
        ctx.goal('raw')
        ctx.check('C03-raw-conservative', npresent == 0)
    elif not out.startswith('EXC'):
        ctx.goal('specific')
        ctx.check('C03-signature-present', present[out])
        ctx.check('C03-exclusive', npresent == 1)
    return (out,)


# ---------------------------------------------------------------- VMDK
from spec import vmdk as VM                       # noqa: E402

DESC_TEMPLATE = (
    '# Disk DescriptorFile\n'
    'version=1\n'
    'CID=7d8a7c1e\n'
    'parentCID=ffffffff\n'
    'createType="monolithicSparse"\n'
    '\n'
    '# Extent description\n'
    'RW 2048 SPARSE "disk.vmdk"\n'
    '\n'
    '# The Disk Data Base\n'
    '#DDB\n'
    '\n'
    'ddb.virtualHWVersion = "4"\n'
    'ddb.adapterType = "ide"\n')
GD_AT_END = 0xffffffffffffffff
VMDK_BOUND = 1536 * 1024
# interesting symbolic positions inside the descriptor template
_T = DESC_TEMPLATE
DESC_POS = {
    'line-start': _T.index('version=1'),
    'field-eq': _T.index('=1'),
    'ctype-first': _T.index('monolithicSparse'),
    'ctype-last': _T.index('Sparse"') + 5,
    'ctype-quote': _T.index('Sparse"') + 6,
    'extent-access': _T.index('RW 2048'),
    'extent-space': _T.index('RW 2048') + 2,
    'extent-name': _T.index('disk.vmdk') + 4,
    'comment-hash': _T.index('#DDB'),
    'ddb-first': _T.index('ddb.virtualHW'),
    'last-newline': len(_T) - 1,
    'first-pad': len(_T),
}
ASCII = frozenset(range(128))


def vmdk_text_of(S, dlen, ctx):
    """the descriptor text as the reference reads it: bytes 512.. up to the
    first NUL within dlen bytes, ascii; None if undecodable"""
    if ctx.sym:
        from symx.sstr import SymStr, SymChar
        import z3
        out = []
        for k in range(dlen):
            t = z3.simplify(S.s.at(z3.IntVal(512 + k)))
            if z3.is_int_value(t):
                v = t.as_long()
                if v == 0:
                    break
                if v >= 128:
                    return None
                out.append(v)
            else:
                ch = SymChar.of_term(t, frozenset(range(256)))
                if ch.in_set(frozenset([0])):
                    break
                if ch.in_set(frozenset(range(128, 256))):
                    return None
                out.append(ch)
        return SymStr(out)
    data = S.full[512:512 + dlen]
    i = data.find(b'\x00')
    if i >= 0:
        data = data[:i]
    try:
        return data.decode('ascii')
    except UnicodeDecodeError:
        return None


def scen_vmdk(ctx, M):
    """Sparse VMDK (KDMV): header fields, descriptor text with symbolic
    characters at configured positions, optional footer; run A (k cuts +
    queries) vs run B (one chunk); reference verdicts for safety, size and
    memory."""
    fi = M.fi
    p = ctx.p
    D = p.get('desc_sectors', 1)
    fixed = {i: b for i, b in enumerate(b'KDMV')}
    fixed.update({4: 1, 28: 1})
    for j, b in enumerate(D.to_bytes(8, 'little')):
        fixed[36 + j] = b
    sym = []
    hdr = p.get('hdr', ())
    if 'version' in hdr:
        sym.append(4)
    if 'sectors' in hdr:
        sym += [12, 19]
    if 'desc_sec' in hdr:
        sym.append(28)
    if 'desc_num' in hdr:
        sym += list(range(36, 44))
    footer = p.get('footer', False)
    if footer:
        for j in range(8):
            fixed[56 + j] = 0xff
    if 'gd' in hdr:
        sym.append(56)
        fixed.pop(56, None)
    for s_ in sym:
        fixed.pop(s_, None)
    text = p.get('template', DESC_TEMPLATE).encode('ascii')
    for j, b in enumerate(text):
        fixed[512 + j] = b
    for name in p.get('desc_sym', ()):
        pos = 512 + DESC_POS[name]
        fixed.pop(pos, None)
        sym.append(pos)
    nmin = p.get('nmin', 0)
    N = ctx.int('N', nmin, p.get('nmax', 4096))
    segs = []
    if footer:
        ft = [0] * 1536
        ft[12] = ('sym', 'ft_type') if 'type' in footer else 3
        ft[8] = ('sym', 'ft_size') if 'size' in footer else 0
        ft[500] = ('sym', 'ft_pad') if 'pad' in footer else 0
        hd = bytearray(512)
        hd[0:4] = b'KDMV'
        hd[4] = 1
        hd[28] = 1
        hd[36:44] = D.to_bytes(8, 'little')
        for j, b in enumerate(hd):
            ft[512 + j] = b
        if 'ver' in footer:
            ft[512 + 4] = ('sym', 'ft_ver')
        if 'num' in footer:
            ft[512 + 36] = ('sym', 'ft_num')
        if 'num2' in footer:
            ft[512 + 36] = ('sym', 'ft_num_lo')
            ft[512 + 37] = ('sym', 'ft_num_hi')
        if 'gd' in footer:
            ft[512 + 56] = ('sym', 'ft_gd')
        if 'sig' in footer:
            ft[512] = ('sym', 'ft_sig')
        if 'eos' in footer:
            ft[1024] = ('sym', 'ft_eosval')
            ft[1024 + 12] = ('sym', 'ft_eostype')
        if ctx.sym:
            ctx.assume(N >= 512 + 512 * D + 1536)
            segs.append((N - 1536, ft, 512 + 512 * D))
    S = ctx.stream('S', N, sym_cells=sym, fixed=fixed,
                   default=p.get('default', 0), segs=segs)
    if footer and not ctx.sym:
        ctx.assume(N >= 512 + 512 * D + 1536)
    cs = cuts(ctx, p['cuts'], N)
    cls = fi.VMDKInspector
    eb, B = feed(ctx, fi, cls, [S.whole()], False, bound=VMDK_BOUND)
    ob = observe(ctx, fi, B) if eb is None else None
    ea, A = feed(ctx, fi, cls, chunks_of(S, cs), True, bound=VMDK_BOUND)
    ctx.check('C01-rel-exception', ea == eb)
    ctx.check('C03-total-only-IFE', ea in (None, 'ImageFormatError') and
              eb in (None, 'ImageFormatError'))
    total = 0
    for v in A.context_info.values():
        total = total + v
    ctx.check('C05-bound', total <= VMDK_BOUND)
    capsum = 0
    for name, region in A._capture_regions.items():
        capsum = capsum + region.length
        ctx.check('C05-region-length-nonnegative', region.length >= 0)
    ctx.check('C05-region-caps', capsum <= VMDK_BOUND)
    if ea is not None or eb is not None:
        ctx.goal('rejected-by-eat_chunk')
        # reference: rejected exactly for a bad version / descriptor sector
        ver = S.le(4, 4)
        dsec = S.le(28, 8)
        ctx.check('C02-reject-justified',
                  OR(AND(ver != 1, ver != 2, ver != 3), dsec != 1,
                     N < 64))
        return (ea, eb)
    oa = observe(ctx, fi, A)
    ctx.check('C01-rel-match', oa[0] == ob[0])
    ctx.check('C01-rel-complete', oa[1] == ob[1])
    ctx.check('C01-rel-size', h.veq(oa[2], ob[2]))
    ctx.check('C01-rel-safety', oa[3] == ob[3])
    retained_ok(ctx, A, S, 'C01-retain')
    m, c, vs, sc = oa
    ctx.check('C03-match-iff-signature', h.veq(m, S.has(0, b'KDMV')))
    # ---- reference
    dnum = S.le(36, 8)
    if 'desc_num' in hdr:
        # symbolic descriptor size: only the memory and relational
        # obligations apply
        return (ea, eb, m, c, vs, sc)
    dlen = min(D * 512, (1 << 20) - 1)
    have_desc = ctx.truth(N >= 512 + dlen)
    need_footer = footer and 'gd' not in hdr
    ref_complete = AND(N >= 64, have_desc)
    if need_footer:
        ref_complete = AND(ref_complete, N >= 1536)
    ctx.check('C01-ref-complete', h.veq(c, ref_complete))
    if not have_desc:
        ctx.goal('truncated-descriptor')
        ctx.check('C07-zero-while-unknown', h.veq(vs, 0))
        ctx.check('C02-incomplete-refused', sc == 'refused')
        return (ea, eb, m, c, vs, sc)
    text_ = vmdk_text_of(S, dlen, ctx)
    if text_ is None:
        safe, defined = False, True
        ct = None
    else:
        safe, defined = VM.descriptor_safe(text_)
        ct, _d = VM.create_type(text_)
    if not defined:
        ctx.goal('unspecified-createType')
        return (ea, eb, m, c, vs, sc)
    supported = False
    if ct is not None:
        for s_ in VM.SUPPORTED:
            if ctx.truth(ct == s_):
                supported = True
    if supported:
        ctx.check('C07-size', h.veq(vs, S.le(12, 8) * 512))
    else:
        ctx.check('C07-unsupported-zero', h.veq(vs, 0))
    if c and m:
        if sc == 'ok':
            ctx.goal('accepted')
            ctx.check('C02-accepted-needs-safe-descriptor', safe)
        elif sc.startswith('fail:'):
            ctx.goal('failed')
            got = set(sc[5:].split(','))
            ctx.check('C02-descriptor-check',
                      ('descriptor' in got) == (not safe))
            if not footer:
                ctx.check('C02-no-footer-check', 'footer' not in got)
        else:
            ctx.check('C02-no-other-outcome', False)
        if safe and (not footer or
                     not ctx.truth(S.le(56, 8) == GD_AT_END)):
            ctx.check('C02-clean-accepted', sc == 'ok')
    else:
        ctx.check('C02-refused-iff', sc == 'refused')
    if footer and c and m and ctx.truth(S.le(56, 8) == GD_AT_END):
        # footer reference: marker type 3 / size 0 / zero pad, footer header
        # equal to the header in signature, version, descriptor location,
        # and not itself announcing a footer; EOS marker all zero
        fo = N - 1536
        okf = AND(S.le(fo + 8, 4) == 0, S.le(fo + 12, 4) == 3,
                  S.byte(fo + 500) == 0,
                  S.byte(fo + 512) == ord('K'),
                  S.le(fo + 512 + 4, 4) == S.le(4, 4),
                  S.le(fo + 512 + 28, 8) == S.le(28, 8),
                  S.le(fo + 512 + 36, 8) == S.le(36, 8),
                  S.le(fo + 512 + 56, 8) != GD_AT_END,
                  S.le(fo + 1024, 8) == 0, S.le(fo + 1024 + 12, 4) == 0)
        if sc == 'ok':
            ctx.check('C02-accepted-needs-consistent-footer', okf)
        elif sc.startswith('fail:'):
            ctx.check('C02-footer-check',
                      h.veq('footer' in set(sc[5:].split(',')), NOT(okf)))
        if safe and ctx.truth(okf):
            ctx.goal('clean-footer')
            ctx.check('C02-clean-accepted', sc == 'ok')
    return (ea, eb, m, c, vs, sc)


def vmdk_jobs(J, H, props, tier, kinds, k=1):
    """kinds: subset of {'hdr','desc1','desc2','footer','descnum'}"""
    P = {'props': sorted(props)}
    jobs = []
    quick = tier == 'quick'
    names = list(DESC_POS)
    if 'hdr' in kinds:
        jobs.append(J(H['vmdk'], dict(
            P, cuts=k, hdr=['version', 'sectors'] if quick else
            ['version', 'sectors', 'desc_sec']), split_depth=12))
        jobs.append(J(H['vmdk'], dict(P, cuts=k, hdr=['gd'], footer=['type'],
                                      nmax=4096), split_depth=10))
    if 'desc1' in kinds:
        pick = names if not quick or k == 0 else \
            ['ctype-quote', 'extent-access', 'extent-name', 'first-pad']
        for n in pick:
            jobs.append(J(H['vmdk'], dict(P, cuts=k, desc_sym=[n],
                                          nmax=2048)))
    if 'desc2' in kinds:
        pairs = [(a, b) for i, a in enumerate(names) for b in names[i + 1:]]
        if quick:
            pairs = [pr for j, pr in enumerate(pairs) if j % 11 == 0]
        for a, b in pairs:
            jobs.append(J(H['vmdk'], dict(P, cuts=0, desc_sym=[a, b],
                                          nmin=1024, nmax=2048),
                          split_depth=10))
    if 'footer' in kinds:
        sets = [['type', 'size', 'pad'], ['ver', 'num', 'gd', 'sig'],
                ['eos']]
        if quick and k > 0:
            sets = [['type', 'ver', 'eos']]
        for fs in sets:
            jobs.append(J(H['vmdk'], dict(P, cuts=k, footer=fs, nmax=8192),
                          split_depth=12))
        # descriptor sector counts at and beyond the 1 MiB clamp: header
        # says 2048 sectors, the footer's count is a symbolic 16-bit value
        jobs.append(J(H['vmdk'], dict(P, cuts=0, footer=['num2'],
                                      desc_sectors=2048, template='',
                                      nmax=1200 * 1024), split_depth=8))
    if 'descnum' in kinds:
        jobs.append(J(H['vmdk'], dict(P, cuts=k, hdr=['desc_num'],
                                      nmax=1200), split_depth=12))
    return jobs


# ---------------------------------------------------------------- VMDK text
TEXT_DESC = (
    '# Disk DescriptorFile\n'
    'version=1\n'
    'createType="monolithicSparse"\n'
    'RW 2048 SPARSE "disk.vmdk"\n'
    + ' ' * 520 + '\n'
    'RW 2048 SPARSE "@isk.vmdk"\n')


def scen_vmdk_text(ctx, M):
    """Text-only VMDK descriptor (no KDMV): the inspector parses only what
    the first chunk held (known finding F1), so the chunking-independence
    obligations are exempted by F1 here; totality, retention and the memory
    bound still apply."""
    fi = M.fi
    text = TEXT_DESC.encode('ascii')
    at = TEXT_DESC.index('@')
    fixed = {i: b for i, b in enumerate(text)}
    del fixed[at]
    N = len(text)
    S = ctx.stream('S', N, sym_cells=[at], fixed=fixed, default=0)
    c1 = ctx.choice('c1', [64, 100, 512, 600, N])
    cls = fi.VMDKInspector
    eb, B = feed(ctx, fi, cls, [S.whole()], False)
    ob = observe(ctx, fi, B) if eb is None else None
    ea, A = feed(ctx, fi, cls, [S.slice(0, c1), S.slice(c1, N)], True)
    f1 = [('F1', True)]
    ctx.check('C01-rel-exception', ea == eb, unless=f1)
    ctx.check('C03-total-only-IFE', ea in (None, 'ImageFormatError') and
              eb in (None, 'ImageFormatError'))
    total = 0
    for v in A.context_info.values():
        total = total + v
    ctx.check('C05-bound', total <= VMDK_BOUND)
    if ea is not None or eb is not None:
        return (ea, eb)
    oa = observe(ctx, fi, A)
    ctx.check('C01-rel-match', oa[0] == ob[0], unless=f1)
    ctx.check('C01-rel-complete', oa[1] == ob[1], unless=f1)
    ctx.check('C01-rel-size', h.veq(oa[2], ob[2]), unless=f1)
    ctx.check('C01-rel-safety', oa[3] == ob[3], unless=f1)
    retained_ok(ctx, A, S, 'C01-retain')
    # C02: an extent naming a path must never be accepted
    slash = S.byte(at) == ord('/')
    for o in (oa, ob):
        if o[3] == 'ok':
            ctx.check('C02-accepted-extent-with-path', NOT(slash),
                      unless=f1)
    ctx.check('C07-text-size-zero', h.veq(oa[2], 0))
    ctx.goal('text-mode')
    return (ea, eb) + tuple(oa) + tuple(ob)


# ---------------------------------------------------------------- C02 CLI
CLI = 'oslo_utils.imageutils.cli'


def load_sym_cli():
    ld = env.Loader(sym=[FI])
    m = Mods()
    m.fi = ld.load(FI)
    env.deterministic_hashes(m.fi, HASHED, False)
    m.cli = ld.load(CLI)
    m.sha = ld.sha
    m.loader = ld
    return m


def load_real_cli():
    m = Mods()
    m.fi = env.import_real(FI)
    m.cli = env.import_real(CLI)
    return m


def scen_cli(ctx, M):
    """cli.main() over a symbolic file: exit status 0 only if detection
    named a format whose signature is present (alone) and that format's
    reference safety verdict is 'safe'; anything else is a non-zero exit"""
    fi, cli = M.fi, M.cli
    p = ctx.p
    mname, magic = ctx.choice('magic0', [x for x in MAGICS0 if p.get(
        'magic') in (None, x[0])])
    fixed = {i: b for i, b in enumerate(magic)}
    if mname == 'qcow2':
        fixed[7] = ctx.choice('qver', [3, 2, 4])
        fixed[79] = ctx.choice('qfeat', [0, 4, 16])
        fixed[15] = ctx.choice('qbf', [0, 1])
    if mname == 'luks':
        fixed[7] = ctx.choice('lver', [1, 2])
    overlay(ctx, fixed)
    if fixed.get(510) == 0x55 and ctx.choice('part', [False, True]):
        fixed[446] = 0x80
        fixed[446 + 4] = 0x83
    N = pick_n(ctx)
    S = ctx.stream('S', N, fixed=fixed, default=0)
    exists = ctx.choice('exists', [True, False]) if p.get('missing') \
        else True
    pos = [0]

    class F_:
        def read(self, size):
            a = pos[0]
            b = h.vmin(a + size, N)
            if ctx.truth(b > a):
                pos[0] = b
                return S.slice(a, b)
            return S.slice(a, a)

        def close(self):
            pass

        def __enter__(self):
            return self

        def __exit__(self, *a):
            return False

    def fake_open(name, mode='r'):
        return F_()

    import unittest.mock as mock
    import os.path as _p
    import sys as _sys
    argv = ['prog', '-i', '/img'] + (['-v'] if p.get('verbose') else [])
    if ctx.sym:
        M.loader.builtins['open'] = fake_open
        M.loader.builtins['print'] = lambda *a, **k: None
    try:
        with mock.patch.object(_sys, 'argv', argv), \
                mock.patch.object(_p, 'exists', lambda x: exists), \
                mock.patch.object(_p, 'isfile', lambda x: exists), \
                mock.patch('builtins.print', lambda *a, **k: None), \
                (mock.patch('builtins.open', fake_open) if not ctx.sym
                 else mock.patch.object(_sys, 'argv', argv)):
            try:
                cli.main()
                code = 'returned'
            except SystemExit as e:
                code = e.code
            except Exception as e:
                code = 'EXC:' + type(e).__name__
    finally:
        if ctx.sym:
            import builtins
            M.loader.builtins['open'] = builtins.open
            M.loader.builtins['print'] = builtins.print
    if not exists:
        ctx.check('C02-cli-missing-file-nonzero', code == 1)
        ctx.goal('missing')
        return (str(code),)
    present = {n: sig_present(S, n) for n in NONRAW}
    npresent = count_true(present.values())
    if code == 0:
        ctx.goal('exit0')
        # which format was it?  exactly one signature, or none (raw)
        ctx.check('C02-cli-exit0-needs-unique-detection', npresent <= 1)
        for n in NONRAW:
            if n in ('vhdx', 'vmdk'):
                ctx.check('C02-cli-exit0-%s-not-in-family' % n,
                          NOT(present[n]))
                continue
            fails = F.REFS[n].failing(S)
            unsafe = OR(*fails.values()) if fails else False
            ctx.check('C02-cli-exit0-implies-safe-%s' % n,
                      NOT(AND(present[n], unsafe)))
            # an image cut short of what its inspector needs is refused by
            # safety_check and must not exit 0
            ctx.check('C02-cli-exit0-implies-complete-%s' % n,
                      NOT(AND(present[n], NOT(F.REFS[n].complete(S)))))
    else:
        ctx.goal('nonzero')
        ctx.check('C02-cli-exit-status', code == 1 or
                  str(code).startswith('EXC:'))
        # a clean, uniquely detected image must be accepted
        if code == 1:
            clean = []
            for n in NONRAW:
                if n in ('vhdx', 'vmdk', 'qed'):
                    continue
                fails = F.REFS[n].failing(S)
                unsafe = OR(*fails.values()) if fails else False
                clean.append(AND(present[n], NOT(unsafe),
                                 F.REFS[n].complete(S)))
            ctx.check('C02-cli-clean-image-accepted',
                      NOT(AND(npresent == 1, OR(*clean))))
    return (str(code),)
